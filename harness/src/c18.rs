//! C18 — relocation is transparent on both the reading and the writing side.
use crate::c11::gen_wdwarf;
use crate::core::*;
use crate::wmodel::{self, set_symbolic, SYMBOL_ADDRESSES};
use crate::{ensure, ensure_eq, fail};
use gimli::write as w;
use gimli::write::Writer;
use gimli::{EndianSlice, Reader, RunTimeEndian, Section, UnwindSection};
use std::collections::BTreeMap;

pub struct C18;

// ---------------------------------------------------------------------------
// a relocation-recording writer and the application of its records
// ---------------------------------------------------------------------------

#[derive(Clone)]
pub struct RecWriter {
    w: w::EndianVec<RunTimeEndian>,
    relocs: Vec<w::Relocation>,
}

impl w::RelocateWriter for RecWriter {
    type Writer = w::EndianVec<RunTimeEndian>;
    fn writer(&self) -> &Self::Writer {
        &self.w
    }
    fn writer_mut(&mut self) -> &mut Self::Writer {
        &mut self.w
    }
    fn relocate(&mut self, relocation: w::Relocation) {
        self.relocs.push(relocation);
    }
}

pub type Map = BTreeMap<&'static str, Vec<u8>>;
pub type Relocs = BTreeMap<&'static str, Vec<w::Relocation>>;

fn store(bytes: &mut [u8], at: usize, size: u8, v: u64, big: bool) {
    for i in 0..size as usize {
        let sh = if big { 8 * (size as usize - 1 - i) } else { 8 * i };
        bytes[at + i] = (v >> sh) as u8;
    }
}

/// The value a relocation stands for (all sections at address 0, symbols at SYMBOL_ADDRESSES).
fn reloc_value(r: &w::Relocation) -> u64 {
    let v = match r.target {
        w::RelocationTarget::Symbol(s) => SYMBOL_ADDRESSES[s].wrapping_add(r.addend as u64),
        w::RelocationTarget::Section(_) => r.addend as u64,
    };
    match r.eh_pe {
        Some(pe) if pe.application() == gimli::DW_EH_PE_pcrel => v.wrapping_sub(r.offset as u64),
        _ => v,
    }
}

pub fn apply(map: &Map, relocs: &Relocs, big: bool) -> Map {
    let mut out = map.clone();
    for (name, rs) in relocs {
        let bytes = out.get_mut(name).unwrap();
        for r in rs {
            store(bytes, r.offset, r.size, reloc_value(r), big);
        }
    }
    out
}

/// Garbage in every relocated field: a reader that uses the stored bytes instead of the relocation is exposed.
/// `mode` 0: a byte pattern; 1: all ones (what a linker leaves in a discarded address, -1); 2: -2 in the section's
/// byte order. The stored bytes of a relocated field must never matter, whatever they look like.
fn scramble(map: &Map, relocs: &Relocs, mode: u8, big: bool) -> Map {
    let mut out = map.clone();
    for (name, rs) in relocs {
        let bytes = out.get_mut(name).unwrap();
        for r in rs {
            let n = r.size as usize;
            // the tombstone look-alikes are for addresses (relocations against symbols); offsets keep the byte pattern
            // (an all-ones CIE pointer would be a CIE id, which is a constant and decides what the entry is)
            let mode = if matches!(r.target, w::RelocationTarget::Symbol(_)) { mode } else { 0 };
            for i in 0..n {
                bytes[r.offset + i] = match mode {
                    0 => 0xa5 ^ (i as u8).wrapping_mul(0x3b),
                    1 => 0xff,
                    _ => {
                        let lsb = if big { n - 1 } else { 0 };
                        if i == lsb {
                            0xfe
                        } else {
                            0xff
                        }
                    }
                };
            }
        }
    }
    out
}

// ---------------------------------------------------------------------------
// reading through RelocateReader
// ---------------------------------------------------------------------------

#[derive(Clone, Debug)]
pub struct Table<'a>(&'a BTreeMap<usize, u64>, &'a std::cell::RefCell<std::collections::BTreeSet<usize>>);

impl<'a> gimli::read::Relocate<usize> for Table<'a> {
    fn relocate_address(&self, offset: usize, value: u64) -> gimli::Result<u64> {
        // every field the reader treats as relocatable is noted: the writer must have recorded a relocation there
        self.1.borrow_mut().insert(offset);
        Ok(self.0.get(&offset).copied().unwrap_or(value))
    }
    fn relocate_offset(&self, offset: usize, value: usize) -> gimli::Result<usize> {
        self.1.borrow_mut().insert(offset);
        Ok(self.0.get(&offset).map(|v| *v as usize).unwrap_or(value))
    }
}

type Plain<'a> = EndianSlice<'a, RunTimeEndian>;
type Reloc<'a> = gimli::RelocateReader<Plain<'a>, Table<'a>>;

fn bytes_of<R: Reader>(r: &R) -> String {
    match r.to_slice() {
        Ok(b) => format!("{:02x?}", &b[..]),
        Err(e) => format!("unreadable({:?})", e),
    }
}

fn op_str<R: Reader<Offset = usize>>(op: &gimli::Operation<R>, encoding: gimli::Encoding) -> String {
    use gimli::Operation as O;
    match op {
        O::ImplicitValue { data } => format!("ImplicitValue({})", bytes_of(data)),
        O::EntryValue { expression } => format!("EntryValue[{}]", expr_str(gimli::Expression(expression.clone()), Some(encoding))),
        O::TypedLiteral { base_type, value } => format!("TypedLiteral({:?},{})", base_type, bytes_of(value)),
        other => format!("{:?}", other),
    }
}

fn expr_str<R: Reader<Offset = usize>>(e: gimli::Expression<R>, encoding: Option<gimli::Encoding>) -> String {
    let encoding = encoding.unwrap_or(gimli::Encoding { format: gimli::Format::Dwarf32, version: 4, address_size: 8 });
    let mut it = e.operations(encoding);
    let mut out = Vec::new();
    loop {
        match it.next() {
            Ok(Some(op)) => out.push(op_str(&op, encoding)),
            Ok(None) => break,
            Err(e) => {
                out.push(format!("error {}", crate::sem::errname(&e)));
                break;
            }
        }
        if out.len() > 500 {
            break;
        }
    }
    out.join("; ")
}

fn attr_str<R: Reader<Offset = usize>>(dwarf: &gimli::Dwarf<R>, unit: &gimli::Unit<R>, a: &gimli::Attribute<R>) -> String {
    use gimli::AttributeValue as A;
    let enc = unit.encoding();
    let v = a.value();
    let base = match &v {
        A::Block(r) | A::String(r) => bytes_of(r),
        A::Exprloc(e) => format!("expr[{}]", expr_str(e.clone(), Some(enc))),
        other => {
            // no reader inside: Debug is reader-independent
            match other {
                A::Block(_) | A::String(_) | A::Exprloc(_) => unreachable!(),
                o => format!("{:?}", o),
            }
        }
    };
    // resolved meanings
    let mut extra = String::new();
    match v {
        A::DebugStrRef(_) | A::DebugLineStrRef(_) | A::DebugStrOffsetsIndex(_) => {
            extra = match dwarf.attr_string(unit, v.clone()) {
                Ok(s) => format!(" -> {}", bytes_of(&s)),
                Err(e) => format!(" -> error {}", crate::sem::errname(&e)),
            };
        }
        A::RangeListsRef(_) | A::DebugRngListsIndex(_) => {
            extra = match dwarf.attr_ranges(unit, v.clone()) {
                Ok(Some(mut it)) => {
                    let mut parts = Vec::new();
                    loop {
                        match it.next() {
                            Ok(Some(r)) => parts.push(format!("{:?}", r)),
                            Ok(None) => break,
                            Err(e) => {
                                parts.push(format!("error {}", crate::sem::errname(&e)));
                                break;
                            }
                        }
                    }
                    format!(" -> {}", parts.join(" "))
                }
                other => format!(" -> {:?}", other.map(|o| o.is_some())),
            };
        }
        A::LocationListsRef(_) | A::DebugLocListsIndex(_) => {
            extra = match dwarf.attr_locations(unit, v.clone()) {
                Ok(Some(mut it)) => {
                    let mut parts = Vec::new();
                    loop {
                        match it.next() {
                            Ok(Some(l)) => parts.push(format!("{:?} {}", l.range, expr_str(l.data, Some(enc)))),
                            Ok(None) => break,
                            Err(e) => {
                                parts.push(format!("error {}", crate::sem::errname(&e)));
                                break;
                            }
                        }
                    }
                    format!(" -> {}", parts.join(" | "))
                }
                other => format!(" -> {:?}", other.map(|o| o.is_some())),
            };
        }
        _ => {}
    }
    format!("{:#x}/{:#x}={}{}", a.name().0, a.form().0, base, extra)
}

/// Everything the reader can tell about the sections, as strings (reader-type independent).
pub fn dump<R: Reader<Offset = usize>>(dwarf: &gimli::Dwarf<R>) -> Vec<String> {
    let mut out = Vec::new();
    let mut it = dwarf.units();
    loop {
        let h = match it.next() {
            Ok(Some(h)) => h,
            Ok(None) => break,
            Err(e) => {
                out.push(format!("units error {}", crate::sem::errname(&e)));
                break;
            }
        };
        out.push(format!("unit {:?} len {} v{} abbrev {:?} addr{}", h.offset(), h.unit_length(), h.version(), h.debug_abbrev_offset(), h.address_size()));
        let unit = match dwarf.unit(h) {
            Ok(u) => u,
            Err(e) => {
                out.push(format!("unit error {}", crate::sem::errname(&e)));
                continue;
            }
        };
        out.push(format!("low_pc {:#x} name {:?} comp_dir {:?} bases {:?} {:?} {:?} {:?}", unit.low_pc, unit.name.as_ref().map(bytes_of), unit.comp_dir.as_ref().map(bytes_of), unit.str_offsets_base, unit.addr_base, unit.loclists_base, unit.rnglists_base));
        let mut cur = unit.entries();
        loop {
            match cur.next_dfs() {
                Ok(Some(e)) => {
                    out.push(format!("  {:#x} depth {} tag {:#x}: {}", e.offset().0, e.depth(), e.tag().0, e.attrs().iter().map(|a| attr_str(dwarf, &unit, a)).collect::<Vec<_>>().join(", ")));
                }
                Ok(None) => break,
                Err(e) => {
                    out.push(format!("  entries error {}", crate::sem::errname(&e)));
                    break;
                }
            }
        }
        if let Some(program) = unit.line_program.clone() {
            let hdr = program.header();
            out.push(format!("line program at {:?}: dirs {:?} files {:?}", hdr.offset(), hdr.include_directories().iter().map(|d| dwarf.attr_string(&unit, d.clone()).map(|s| bytes_of(&s)).unwrap_or_else(|e| crate::sem::errname(&e))).collect::<Vec<_>>(), hdr.file_names().iter().map(|f| (dwarf.attr_string(&unit, f.path_name()).map(|s| bytes_of(&s)).unwrap_or_else(|e| crate::sem::errname(&e)), f.directory_index())).collect::<Vec<_>>()));
            let mut rows = program.rows();
            loop {
                match rows.next_row() {
                    Ok(Some((_, r))) => out.push(format!("  row {:?}", r)),
                    Ok(None) => break,
                    Err(e) => {
                        out.push(format!("  rows error {}", crate::sem::errname(&e)));
                        break;
                    }
                }
                if out.len() > 20000 {
                    break;
                }
            }
        }
    }
    out
}

fn frame_dump<R: Reader<Offset = usize>, S: UnwindSection<R>>(sec: &S, out: &mut Vec<String>)
where
    S::Offset: gimli::UnwindOffset<usize>,
{
    let bases = gimli::BaseAddresses::default().set_eh_frame(0);
    let mut it = sec.entries(&bases);
    let mut ctx = Box::new(gimli::UnwindContext::new());
    loop {
        match it.next() {
            Ok(Some(gimli::CieOrFde::Cie(c))) => out.push(format!("cie @{} v{} caf {} daf {} ra {:?} personality {:?} lsda-enc {:?} fde-enc {:?}", c.offset(), c.version(), c.code_alignment_factor(), c.data_alignment_factor(), c.return_address_register(), c.personality(), c.lsda_encoding(), c.fde_address_encoding())),
            Ok(Some(gimli::CieOrFde::Fde(p))) => match p.parse(S::cie_from_offset) {
                Ok(f) => {
                    out.push(format!("fde @{} cie @{} pc {:#x} len {:#x} lsda {:?}", f.offset(), f.cie().offset(), f.initial_address(), f.len(), f.lsda()));
                    if let Ok(mut t) = f.rows(sec, &bases, &mut ctx) {
                        loop {
                            match t.next_row() {
                                Ok(Some(r)) => out.push(format!("  row {:#x}..{:#x} cfa {:?} rules {:?}", r.start_address(), r.end_address(), r.cfa(), r.registers().collect::<Vec<_>>())),
                                Ok(None) => break,
                                Err(e) => {
                                    out.push(format!("  rows error {}", crate::sem::errname(&e)));
                                    break;
                                }
                            }
                        }
                    }
                }
                Err(e) => out.push(format!("fde error {}", crate::sem::errname(&e))),
            },
            Ok(None) => break,
            Err(e) => {
                out.push(format!("entries error {}", crate::sem::errname(&e)));
                break;
            }
        }
        if out.len() > 5000 {
            break;
        }
    }
}

fn tables(relocs: &Relocs) -> BTreeMap<&'static str, BTreeMap<usize, u64>> {
    relocs.iter().map(|(k, rs)| (*k, rs.iter().map(|r| (r.offset, reloc_value(r))).collect())).collect()
}

/// Write an already built `write::Dwarf` through the relocation-recording writer and apply the recorded relocations
/// (symbols at SYMBOL_ADDRESSES, sections at 0): what a linker would produce from the relocatable output.
pub fn write_built_applied(dwarf: &mut w::Dwarf, big: bool) -> Result<Map, w::Error> {
    let endian = if big { RunTimeEndian::Big } else { RunTimeEndian::Little };
    let mut map = Map::new();
    let mut relocs = Relocs::new();
    let mut sections = w::Sections::new(RecWriter { w: w::EndianVec::new(endian), relocs: Vec::new() });
    dwarf.write(&mut sections)?;
    sections
        .for_each(|id, s| -> Result<(), w::Error> {
            map.insert(id.name(), s.w.slice().to_vec());
            relocs.insert(id.name(), s.relocs.clone());
            Ok(())
        })
        .unwrap();
    Ok(apply(&map, &relocs, big))
}

// ---------------------------------------------------------------------------
// units
// ---------------------------------------------------------------------------

fn write_units(m: &wmodel::WDwarf, symbolic: bool) -> Result<(Map, Relocs), String> {
    set_symbolic(symbolic);
    let mut built = wmodel::build(m);
    set_symbolic(false);
    let endian = if m.big { RunTimeEndian::Big } else { RunTimeEndian::Little };
    let mut map = Map::new();
    let mut relocs = Relocs::new();
    if symbolic {
        let mut sections = w::Sections::new(RecWriter { w: w::EndianVec::new(endian), relocs: Vec::new() });
        built.dwarf.write(&mut sections).map_err(|e| format!("{:?}", e))?;
        sections
            .for_each(|id, s| -> Result<(), w::Error> {
                map.insert(id.name(), s.w.slice().to_vec());
                relocs.insert(id.name(), s.relocs.clone());
                Ok(())
            })
            .unwrap();
    } else {
        let mut sections = w::Sections::new(w::EndianVec::new(endian));
        built.dwarf.write(&mut sections).map_err(|e| format!("{:?}", e))?;
        sections
            .for_each(|id, s| -> Result<(), w::Error> {
                map.insert(id.name(), s.slice().to_vec());
                Ok(())
            })
            .unwrap();
    }
    Ok((map, relocs))
}

fn first_diff(a: &[String], b: &[String]) -> String {
    for (i, (x, y)) in a.iter().zip(b.iter()).enumerate() {
        if x != y {
            return format!("line {}: relocating reader `{}` vs pre-applied `{}`", i, x, y);
        }
    }
    format!("{} vs {} lines", a.len(), b.len())
}

fn check_units(ch: &mut Choices, cx: &mut Ctx) -> R {
    cx.label("units");
    let (mut m, _expect) = gen_wdwarf(ch, cx);
    // most cases without references into a supplementary file, so that the relocation-set clause below applies
    if ch.chance(200) {
        for u in m.units.iter_mut() {
            for e in u.entries.iter_mut() {
                e.attrs.retain(|a| !matches!(a.1, wmodel::WVal::DebugInfoRefSup(_) | wmodel::WVal::DebugStrRefSup(_)));
            }
        }
    }
    cx.sample_with(|| format!("{} {} units: {:?}", if m.big { "BE" } else { "LE" }, m.units.len(), m.units.iter().map(|u| (u.version, u.format64, u.address_size, u.entries.len(), u.ranges.len(), u.locs.len())).collect::<Vec<_>>()));
    let direct = write_units(&m, false);
    let recorded = write_units(&m, true);
    let ((dmap, _), (rmap, relocs)) = match (direct, recorded) {
        (Ok(a), Ok(b)) => (a, b),
        (Err(_), Err(_)) => {
            cx.label("units: refused both ways");
            return Ok(());
        }
        (a, b) => {
            // validity checks that look at address values see symbols differently: not a transparency question
            cx.label("units: refused one way only (address-dependent validity)");
            let _ = (a.is_ok(), b.is_ok());
            return Ok(());
        }
    };
    let nsym = relocs.values().flatten().filter(|r| matches!(r.target, w::RelocationTarget::Symbol(_))).count();
    let nsec = relocs.values().flatten().filter(|r| matches!(r.target, w::RelocationTarget::Section(_))).count();
    if nsym >= 1 && nsec >= 2 {
        cx.nt();
    }
    // writing side: applied == direct
    let applied = apply(&rmap, &relocs, m.big);
    for (name, bytes) in &dmap {
        let got = applied.get(name).cloned().unwrap_or_default();
        if &got != bytes {
            let at = got.iter().zip(bytes.iter()).position(|(a, b)| a != b).unwrap_or(got.len().min(bytes.len()));
            fail!("c18/write/applied-differs-from-direct", "section {}: lengths {} / {}, first difference at {:#x}: applied {:02x?} direct {:02x?}; relocations near: {:?}", name, got.len(), bytes.len(), at, &got[at.saturating_sub(4)..(at + 12).min(got.len())], &bytes[at.saturating_sub(4)..(at + 12).min(bytes.len())], relocs.get(name).map(|rs| rs.iter().filter(|r| r.offset + 16 > at && r.offset < at + 16).collect::<Vec<_>>()));
        }
    }
    // references to the macro sections (which gimli does not write itself): each is recorded against the section its
    // kind names - .debug_macinfo for a macinfo reference, .debug_macro for a macro reference - whatever the version
    {
        let mut want_macinfo: Vec<i64> = Vec::new();
        let mut want_macro: Vec<i64> = Vec::new();
        for u in &m.units {
            for e in u.entries.iter().filter(|e| !e.never_added) {
                // (an attribute set twice keeps its last value)
                let mut last: BTreeMap<u16, &wmodel::WVal> = BTreeMap::new();
                for (n, v) in &e.attrs {
                    last.insert(*n, v);
                }
                for v in last.values() {
                    match v {
                        wmodel::WVal::DebugMacinfoRef(o) => want_macinfo.push(*o as i64),
                        wmodel::WVal::DebugMacroRef(o) => want_macro.push(*o as i64),
                        _ => {}
                    }
                }
            }
        }
        let got = |id: gimli::SectionId| -> Vec<i64> {
            let mut v: Vec<i64> = relocs.get(".debug_info").map(|rs| rs.iter().filter(|r| r.target == w::RelocationTarget::Section(id)).map(|r| r.addend).collect()).unwrap_or_default();
            v.sort();
            v
        };
        want_macinfo.sort();
        want_macro.sort();
        ensure_eq!(got(gimli::SectionId::DebugMacinfo), want_macinfo, "c18/write/macinfo-reference-targets", "addends of the relocations recorded against .debug_macinfo vs the macinfo references requested");
        ensure_eq!(got(gimli::SectionId::DebugMacro), want_macro, "c18/write/macro-reference-targets", "addends of the relocations recorded against .debug_macro vs the macro references requested");
        if !want_macinfo.is_empty() || !want_macro.is_empty() {
            cx.label("units: macro section references");
        }
    }
    // every relocation lies inside its section and fields do not overlap
    for (name, rs) in &relocs {
        let len = rmap[name].len();
        let mut spans: Vec<(usize, usize)> = rs.iter().map(|r| (r.offset, r.offset + r.size as usize)).collect();
        spans.sort();
        for s in &spans {
            ensure!(s.1 <= len, "c18/write/relocation-out-of-section", "{} {:?} (section length {})", name, s, len);
        }
        for p in spans.windows(2) {
            ensure!(p[0].1 <= p[1].0, "c18/write/relocations-overlap", "{} {:?} {:?}", name, p[0], p[1]);
        }
    }
    // reading side: relocating reader over scrambled fields == plain reader over applied bytes
    let scrambled = scramble(&rmap, &relocs, (m.units.iter().map(|u| u.entries.len()).sum::<usize>() % 3) as u8, m.big);
    let tabs = tables(&relocs);
    let endian = if m.big { RunTimeEndian::Big } else { RunTimeEndian::Little };
    let empty: Vec<u8> = Vec::new();
    let empty_tab: BTreeMap<usize, u64> = BTreeMap::new();
    let queried: BTreeMap<&'static str, std::cell::RefCell<std::collections::BTreeSet<usize>>> = scrambled.keys().map(|k| (*k, Default::default())).collect();
    let nowhere: std::cell::RefCell<std::collections::BTreeSet<usize>> = Default::default();
    let plain: gimli::Dwarf<Plain> = gimli::Dwarf::load(|id| -> Result<_, gimli::Error> { Ok(EndianSlice::new(applied.get(id.name()).unwrap_or(&empty), endian)) }).unwrap();
    let reloc: gimli::Dwarf<Reloc> = gimli::Dwarf::load(|id| -> Result<_, gimli::Error> { Ok(gimli::RelocateReader::new(EndianSlice::new(scrambled.get(id.name()).unwrap_or(&empty), endian), Table(tabs.get(id.name()).unwrap_or(&empty_tab), queried.get(id.name()).unwrap_or(&nowhere)))) }).unwrap();
    let a = dump(&reloc);
    let b = dump(&plain);
    if a != b {
        fail!("c18/read/relocating-reader-differs", "{}", first_diff(&a, &b));
    }
    // "every address and cross-section offset passes through the relocatable primitives": a field that the reader reads
    // through them (it is an address or a cross-section offset) must have been written through them, i.e. carry a
    // recorded relocation. (The converse direction is covered by the scrambled bytes above.)
    // references into a supplementary object file (DW_FORM_strp_sup, DW_FORM_ref_sup*) are not offsets into any section
    // of this file: whether they pass through the relocatable primitives is left open, and such cases are not judged
    let has_sup = m.units.iter().any(|u| u.entries.iter().any(|e| !e.never_added && e.attrs.iter().any(|a| matches!(a.1, wmodel::WVal::DebugInfoRefSup(_) | wmodel::WVal::DebugStrRefSup(_)))));
    for (name, q) in &queried {
        if has_sup {
            break;
        }
        cx.label("units: every field read as relocatable carries a recorded relocation");
        // the pre-v5 list sections are read with address reads throughout (offset pairs, terminators and base-selection
        // markers cannot be told apart from addresses before they are read): only sections whose fields are typed
        if !matches!(*name, ".debug_info" | ".debug_line" | ".debug_rnglists" | ".debug_loclists") {
            continue;
        }
        let rec = tabs.get(name);
        for off in q.borrow().iter() {
            if !rec.is_some_and(|t| t.contains_key(off)) {
                cx.say(|| a.join("\n"));
                fail!("c18/write/relocatable-field-not-recorded", "section {} offset {:#x}: the reader reads this field through the relocatable primitives (an address or a cross-section offset) but the relocation-recording writer recorded no relocation for it; recorded in this section: {:x?}", name, off, rec.map(|t| t.keys().collect::<Vec<_>>()));
            }
        }
    }
    ensure!(!b.iter().any(|l| l.contains("error")), "c18/harness/output-unreadable", "{:?}", b.iter().find(|l| l.contains("error")));
    let _ = plain.debug_info.reader().len();
    // a linker at work: every section that is only ever reached through relocated offsets is placed behind other data
    // (a different amount for each), and each relocation is resolved against the section it NAMES. If a field were
    // recorded against the wrong section, it would now point into the wrong place. The linked file must mean what the
    // directly written file means.
    {
        const PADS: [(&str, usize); 8] = [(".debug_str", 5), (".debug_line_str", 9), (".debug_abbrev", 3), (".debug_line", 16), (".debug_ranges", 8), (".debug_rnglists", 24), (".debug_loc", 40), (".debug_loclists", 32)];
        let pad_of = |name: &str| PADS.iter().find(|p| p.0 == name).map(|p| p.1).unwrap_or(0);
        let mut linked: Map = Map::new();
        for (name, bytes) in &rmap {
            let mut v = vec![0xccu8; pad_of(name)];
            v.extend_from_slice(bytes);
            linked.insert(name, v);
        }
        for (name, rs) in &relocs {
            let own = pad_of(name);
            let bytes = linked.get_mut(name).unwrap();
            for r in rs {
                let v = match r.target {
                    w::RelocationTarget::Symbol(sy) => SYMBOL_ADDRESSES[sy].wrapping_add(r.addend as u64),
                    w::RelocationTarget::Section(id) => (pad_of(id.name()) as u64).wrapping_add(r.addend as u64),
                };
                store(bytes, own + r.offset, r.size, v, m.big);
            }
        }
        let direct_dwarf = crate::c12::load_map(&dmap, m.big);
        if let Ok(d_direct) = crate::sem::dwarf_dump(&direct_dwarf) {
            let linked_dwarf = crate::c12::load_map(&linked, m.big);
            match crate::sem::dwarf_dump(&linked_dwarf) {
                Ok(d_linked) => {
                    if let Some(diff) = crate::sem::diff_dumps(&d_direct, &d_linked) {
                        fail!("c18/write/linked-differs-from-direct", "after placing the sections at different offsets and resolving each relocation against the section it names: {} - {}", diff.0, diff.1);
                    }
                    cx.label("units: linked image (shifted sections) means what the direct output means");
                }
                Err(e) => fail!("c18/write/linked-unreadable", "{}", e),
            }
        }
    }
    Ok(())
}

// ---------------------------------------------------------------------------
// line programs that did not come from gimli's writer (reading side only)
// ---------------------------------------------------------------------------

/// An assembler-built line program (the C04 generator: any header, operands of DW_LNE_set_address that are longer than
/// the address size, tombstones, several sequences) with a generated relocation on the address of some of the
/// DW_LNE_set_address operations: the rows read through the relocating reader from a section whose relocated fields
/// hold garbage equal the rows read from the section with the relocations applied.
fn check_line_reader(ch: &mut Choices, cx: &mut Ctx) -> R {
    use crate::linemodel::{build_line, decode_lop, encode_lop, LOp};
    cx.label("line programs (reading side, assembler-built)");
    let big = ch.bool();
    let endian = if big { RunTimeEndian::Big } else { RunTimeEndian::Little };
    let h = crate::c04::gen_header(ch);
    let ops = if ch.chance(170) { crate::c04::gen_program(ch, &h) } else { crate::c04::gen_tombstone_program(ch, &h) };
    let mut pw = crate::enc::W::new(big);
    for op in &ops {
        encode_lop(op, &h, &mut pw);
    }
    let (bytes, prog_at) = build_line(&h, big, &pw.buf);
    let a = h.address_size;
    let m = crate::enc::mask(a);
    let mut rs: Vec<w::Relocation> = Vec::new();
    let mut table: BTreeMap<usize, u64> = BTreeMap::new();
    let mut pos = 0usize;
    let mut long_operand = false;
    while pos < pw.buf.len() {
        match decode_lop(&pw.buf, pos, &h, big) {
            Ok((op, len)) => {
                if let LOp::SetAddress(_, extra) = op {
                    let at = prog_at + pos + len - extra - a as usize;
                    if ch.chance(190) {
                        let symbol = ch.below(SYMBOL_ADDRESSES.len());
                        let addend = (ch.below(0x400) * 4) as i64;
                        let r = w::Relocation { offset: at, size: a, target: w::RelocationTarget::Symbol(symbol), addend, eh_pe: None };
                        table.insert(at, reloc_value(&r) & m);
                        rs.push(r);
                        long_operand |= extra > 0;
                    }
                }
                pos += len;
            }
            Err(_) => break,
        }
    }
    if rs.is_empty() {
        return Ok(());
    }
    if long_operand {
        cx.label("line programs: relocated set_address with an operand longer than the address size");
    }
    let mut map = Map::new();
    map.insert(".debug_line", bytes);
    let mut relocs = Relocs::new();
    relocs.insert(".debug_line", rs);
    let applied = apply(&map, &relocs, big);
    let scrambled = scramble(&map, &relocs, ch.below(3) as u8, big);
    cx.sample_with(|| format!("{} v{} addr{} {} operations, relocated set_address operands at {:x?}", if big { "BE" } else { "LE" }, h.version, a, ops.len(), table.keys().collect::<Vec<_>>()));
    fn rows_of<R: Reader<Offset = usize>>(dl: gimli::DebugLine<R>, a: u8) -> Vec<String> {
        let mut out = Vec::new();
        match dl.program(gimli::DebugLineOffset(0), a, None, None) {
            Ok(p) => {
                let mut rows = p.rows();
                loop {
                    match rows.next_row() {
                        Ok(Some((_, r))) => out.push(format!("{:#x}.{} line {:?} col {:?} file {} end {}", r.address(), r.op_index(), r.line().map(|l| l.get()), r.column(), r.file_index(), r.end_sequence())),
                        Ok(None) => break,
                        Err(e) => {
                            out.push(format!("error {:?}", e));
                            break;
                        }
                    }
                    if out.len() > 4000 {
                        break;
                    }
                }
            }
            Err(e) => out.push(format!("header error {:?}", e)),
        }
        out
    }
    let fq = std::cell::RefCell::new(std::collections::BTreeSet::new());
    let got = rows_of(gimli::DebugLine::from(gimli::RelocateReader::new(EndianSlice::new(&scrambled[".debug_line"], endian), Table(&table, &fq))), a);
    let want = rows_of(gimli::DebugLine::new(&applied[".debug_line"], endian), a);
    if got != want {
        fail!("c18/read/line/relocating-reader-differs", "{}", first_diff(&got, &want));
    }
    // every relocated operand was read through the relocatable primitive (unless an error ended the run before it)
    if !want.iter().any(|l| l.contains("error")) {
        for at in table.keys() {
            ensure!(fq.borrow().contains(at), "c18/read/line/address-not-relocated", "the DW_LNE_set_address operand at {:#x} was not read through Reader::read_address", at);
        }
    }
    if want.len() >= 2 {
        cx.nt();
    }
    Ok(())
}

/// An assembler-built `.debug_frame` (the C06 generator: every call-frame instruction, DW_CFA_set_loc among them) with
/// generated relocations on the FDE's initial location and on the operands of DW_CFA_set_loc in the FDE: entries and
/// unwind rows read through the relocating reader from scrambled fields equal those of the applied copy.
fn check_frame_reader(ch: &mut Choices, cx: &mut Ctx) -> R {
    use crate::cfimodel::{encode_cfi, CfiOp};
    cx.label("frame sections (reading side, assembler-built)");
    let mut case = crate::c06::gen_case(ch);
    for _ in 0..6 {
        if !case.eh {
            break;
        }
        case = crate::c06::gen_case(ch);
    }
    if case.eh {
        return Ok(());
    }
    // a DW_CFA_set_loc now and then even when the generator did not choose one
    if ch.chance(128) {
        let at = ch.below(case.fde.instrs.len() + 1);
        let m = crate::enc::mask(case.cie.address_size);
        case.fde.instrs.insert(at, CfiOp::SetLoc((case.fde.initial_raw & m).wrapping_add(ch.below(0x40) as u64) & m));
    }
    let built = crate::c06::build(&case);
    let big = case.big;
    let endian = if big { RunTimeEndian::Big } else { RunTimeEndian::Little };
    let a = case.cie.address_size;
    let m = crate::enc::mask(a);
    let mut rs: Vec<w::Relocation> = Vec::new();
    let mut table: BTreeMap<usize, u64> = BTreeMap::new();
    let mut add = |at: usize, ch: &mut Choices| {
        let symbol = ch.below(SYMBOL_ADDRESSES.len());
        let r = w::Relocation { offset: at, size: a, target: w::RelocationTarget::Symbol(symbol), addend: (ch.below(0x100) * 8) as i64, eh_pe: None };
        table.insert(at, reloc_value(&r) & m);
        rs.push(r);
    };
    if ch.chance(200) {
        add(built.fdes[0].initial_loc_at, ch);
    }
    let mut pos = built.fdes[0].instr_offset;
    let mut set_locs = 0;
    for op in &case.fde.instrs {
        let mut t = crate::enc::W::new(big);
        encode_cfi(op, a, 0, &mut t);
        if matches!(op, CfiOp::SetLoc(_)) && pos + 1 + a as usize <= built.bytes.len() {
            set_locs += 1;
            if ch.chance(220) {
                add(pos + 1, ch);
            }
        }
        pos += t.len();
    }
    if rs.is_empty() {
        return Ok(());
    }
    if set_locs > 0 {
        cx.label("frame sections: relocated DW_CFA_set_loc operand");
    }
    let mut map = Map::new();
    map.insert(".debug_frame", built.bytes.clone());
    let mut relocs = Relocs::new();
    relocs.insert(".debug_frame", rs);
    let applied = apply(&map, &relocs, big);
    let scrambled = scramble(&map, &relocs, ch.below(3) as u8, big);
    cx.sample_with(|| format!("{} addr{} v{} fde instructions {:?}, relocated fields at {:x?}", if big { "BE" } else { "LE" }, a, case.cie.version, case.fde.instrs, table.keys().collect::<Vec<_>>()));
    let fq = std::cell::RefCell::new(std::collections::BTreeSet::new());
    let sa = crate::c06::section_address_size(&case);
    let mut got = Vec::new();
    let mut want = Vec::new();
    {
        let mut s = gimli::DebugFrame::from(gimli::RelocateReader::new(EndianSlice::new(&scrambled[".debug_frame"], endian), Table(&table, &fq)));
        s.set_address_size(sa);
        frame_dump(&s, &mut got);
        let mut p = gimli::DebugFrame::new(&applied[".debug_frame"], endian);
        p.set_address_size(sa);
        frame_dump(&p, &mut want);
    }
    if got != want {
        fail!("c18/read/frame/relocating-reader-differs", "{}", first_diff(&got, &want));
    }
    if want.len() >= 3 {
        cx.nt();
    }
    Ok(())
}

// ---------------------------------------------------------------------------
// frame tables
// ---------------------------------------------------------------------------

fn check_frames(ch: &mut Choices, cx: &mut Ctx) -> R {
    cx.label("frame tables");
    let big = ch.bool();
    let endian = if big { RunTimeEndian::Big } else { RunTimeEndian::Little };
    let eh = ch.bool();
    let address_size = ch.pick(&[8u8, 4]);
    let format = if !eh && ch.chance(64) { gimli::Format::Dwarf64 } else { gimli::Format::Dwarf32 };
    let version = if eh { 1 } else { ch.pick(&[1u16, 3, 4]) };
    let enc = gimli::Encoding { format, version, address_size };
    let ncie = 1 + ch.below(2);
    let nfde = 1 + ch.below(3);
    // (0x01/0x09: LEB128 pointers, whose length depends on the value: no relocation can describe them)
    let encs: Vec<gimli::DwEhPe> = if address_size == 8 {
        vec![gimli::DW_EH_PE_absptr, gimli::DwEhPe(0x1b), gimli::DwEhPe(0x03), gimli::DwEhPe(0x0b), gimli::DwEhPe(0x04), gimli::DwEhPe(0x1c), gimli::DwEhPe(0x0c), gimli::DwEhPe(0x01), gimli::DwEhPe(0x09)]
    } else {
        vec![gimli::DW_EH_PE_absptr, gimli::DwEhPe(0x1b), gimli::DwEhPe(0x03), gimli::DwEhPe(0x0b), gimli::DwEhPe(0x01), gimli::DwEhPe(0x09)]
    };
    let is_leb = |e: gimli::DwEhPe| matches!(e.0 & 0x0f, 0x01 | 0x09);
    #[derive(Clone, Debug)]
    struct Spec {
        fde_enc: gimli::DwEhPe,
        lsda_enc: Option<gimli::DwEhPe>,
        personality: Option<(gimli::DwEhPe, u64)>,
    }
    let cies: Vec<Spec> = (0..ncie).map(|_| Spec { fde_enc: if eh { encs[ch.below(encs.len())] } else { gimli::DW_EH_PE_absptr }, lsda_enc: if eh && ch.bool() { Some(encs[ch.below(encs.len())]) } else { None }, personality: if eh && ch.bool() { Some((encs[ch.below(encs.len())], 0x5000 + ch.below(64) as u64 * 8)) } else { None } }).collect();
    let fdes: Vec<(usize, u64, u32, Option<u64>, Vec<u32>)> = (0..nfde).map(|k| (ch.below(ncie), 0x1_0000 + k as u64 * 0x1000 + ch.below(16) as u64, 0x40 + ch.below(0x100) as u32, Some(0x9000 + ch.below(32) as u64 * 4), (0..ch.below(4)).map(|i| 4 * (i as u32 + 1)).collect())).collect();
    cx.sample_with(|| format!("{} {:?} cies {:?} fdes {:?}", if eh { ".eh_frame" } else { ".debug_frame" }, enc, cies, fdes));
    let build = |symbolic: bool| -> w::FrameTable {
        set_symbolic(symbolic);
        let mut t = w::FrameTable::default();
        let mut ids = Vec::new();
        for c in &cies {
            let mut cie = w::CommonInformationEntry::new(enc, 1, -8, gimli::Register(16));
            cie.fde_address_encoding = c.fde_enc;
            cie.lsda_encoding = c.lsda_enc;
            cie.personality = c.personality.map(|(e, a)| (e, wmodel::mk_addr(a)));
            cie.add_instruction(w::CallFrameInstruction::Cfa(gimli::Register(7), 8));
            ids.push(t.add_cie(cie));
        }
        for (ci, addr, len, lsda, offs) in &fdes {
            let mut fde = w::FrameDescriptionEntry::new(wmodel::mk_addr(*addr), *len);
            if cies[*ci].lsda_enc.is_some() {
                fde.lsda = lsda.map(wmodel::mk_addr);
            }
            for o in offs {
                fde.add_instruction(*o, w::CallFrameInstruction::CfaOffset(16 + *o as i32));
            }
            t.add_fde(ids[*ci], fde);
        }
        set_symbolic(false);
        t
    };
    let name: &'static str = if eh { ".eh_frame" } else { ".debug_frame" };
    let direct = {
        let t = build(false);
        if eh {
            let mut s = w::EhFrame::from(w::EndianVec::new(endian));
            t.write_eh_frame(&mut s).map(|_| s.0.into_vec())
        } else {
            let mut s = w::DebugFrame::from(w::EndianVec::new(endian));
            t.write_debug_frame(&mut s).map(|_| s.0.into_vec())
        }
    };
    let recorded = {
        let t = build(true);
        let rw = RecWriter { w: w::EndianVec::new(endian), relocs: Vec::new() };
        if eh {
            let mut s = w::EhFrame::from(rw);
            t.write_eh_frame(&mut s).map(|_| (s.0.w.slice().to_vec(), s.0.relocs.clone()))
        } else {
            let mut s = w::DebugFrame::from(rw);
            t.write_debug_frame(&mut s).map(|_| (s.0.w.slice().to_vec(), s.0.relocs.clone()))
        }
    };
    let (dbytes, (rbytes, rs)) = match (direct, recorded) {
        (Ok(a), Ok(b)) => (a, b),
        (Err(_), Err(_)) => {
            cx.label("frames: refused both ways");
            return Ok(());
        }
        (Ok(_), Err(_)) if fdes.iter().any(|f| { let c = &cies[f.0]; is_leb(c.fde_enc) || c.lsda_enc.map_or(false, is_leb) || c.personality.map_or(false, |p| is_leb(p.0)) }) => {
            cx.label("frames: symbolic LEB128 pointer refused");
            return Ok(());
        }
        (a, b) => {
            fail!("c18/frames/refused-one-way", "direct {:?} recording {:?}", a.map(|_| ()), b.map(|_| ()));
        }
    };
    if rs.iter().any(|r| r.eh_pe.is_some()) {
        cx.nt();
    }
    let mut rmap = Map::new();
    rmap.insert(name, rbytes);
    let mut relocs = Relocs::new();
    relocs.insert(name, rs);
    let applied = apply(&rmap, &relocs, big);
    if applied[name] != dbytes {
        let got = &applied[name];
        let at = got.iter().zip(dbytes.iter()).position(|(a, b)| a != b).unwrap_or(got.len().min(dbytes.len()));
        fail!("c18/write/applied-differs-from-direct", "section {}: lengths {} / {}, first difference at {:#x}: applied {:02x?} direct {:02x?}; relocations {:?}", name, got.len(), dbytes.len(), at, &got[at.saturating_sub(4)..(at + 12).min(got.len())], &dbytes[at.saturating_sub(4)..(at + 12).min(dbytes.len())], relocs[name]);
    }
    // reading side
    let scrambled = scramble(&rmap, &relocs, (relocs[name].len() % 3) as u8, big);
    let tabs = tables(&relocs);
    let mut a = Vec::new();
    let mut b = Vec::new();
    let fq: std::cell::RefCell<std::collections::BTreeSet<usize>> = Default::default();
    if eh {
        let mut s = gimli::EhFrame::from(gimli::RelocateReader::new(EndianSlice::new(&scrambled[name], endian), Table(&tabs[name], &fq)));
        s.set_address_size(address_size);
        frame_dump(&s, &mut a);
        let mut p = gimli::EhFrame::new(&applied[name], endian);
        p.set_address_size(address_size);
        frame_dump(&p, &mut b);
    } else {
        let mut s = gimli::DebugFrame::from(gimli::RelocateReader::new(EndianSlice::new(&scrambled[name], endian), Table(&tabs[name], &fq)));
        s.set_address_size(address_size);
        frame_dump(&s, &mut a);
        let mut p = gimli::DebugFrame::new(&applied[name], endian);
        p.set_address_size(address_size);
        frame_dump(&p, &mut b);
    }
    if a != b {
        let sized = relocs[name].iter().any(|r| matches!(r.eh_pe, Some(pe) if pe.format() != gimli::DW_EH_PE_absptr));
        let f = Failure { sig: if sized { "c18/read/frames/sized-pointer-not-relocated".into() } else { "c18/read/frames/relocating-reader-differs".into() }, detail: first_diff(&a, &b) };
        cx.report(f)?;
        cx.label("frames: relocating reader differs (recorded finding)");
        return Ok(());
    }
    ensure!(!b.iter().any(|l| l.contains("error")), "c18/harness/frame-output-unreadable", "{:?}", b.iter().find(|l| l.contains("error")));
    // (no "read as relocatable => recorded" clause here: the reader takes an FDE's address range through the same
    // pointer routine as its start address, and a length needs no relocation)
    ensure_eq!(1, 1, "c18/unused");
    Ok(())
}

impl Prop for C18 {
    fn id(&self) -> &'static str {
        "C18"
    }
    fn rule(&self) -> &'static str {
        "generated unit tables (the C11 generator: 1-4 units, versions 2-5, both formats, address sizes 4/8, both byte orders, every attribute value kind, range/location lists, line programs, cross-unit references, expressions with addresses and entry references) and generated frame tables (.debug_frame v1/3/4 and .eh_frame, 1-2 CIEs with personality/LSDA in absolute, pc-relative and sized pointer encodings, 1-3 FDEs) are built twice: with constant addresses written through the plain writer, and with every address turned into symbol + addend written through a relocation-recording RelocateWriter. Writing side: applying the recorded relocations (symbols at fixed addresses, sections at 0, pc-relative records relative to their own position) must give sections byte-identical to the direct write; records must lie inside their section and not overlap. Reading side: the relocated fields of the recorded output are overwritten with garbage and the sections are parsed through RelocateReader with the recorded relocation table; a full dump (unit headers, every attribute raw and resolved, strings, lists, expressions, line programs and rows, CIE/FDE fields and unwind rows) must equal the dump of the pre-applied bytes through the plain reader, so any address or section offset that is parsed without going through the relocatable primitives shows up as a difference. Non-trivial = at least one symbol relocation and two section-offset relocations (units) or a pointer-encoded relocation (frames); distinct by choice string. Later additions: frame tables with LEB128 pointer encodings; a reading-side mode on assembler-built line programs with generated relocations on DW_LNE_set_address operands (incl. operands longer than the address size); the section named by the relocation of a macinfo / macro reference. Round-8 additions: a reading-side mode on assembler-built .debug_frame sections with generated relocations on the FDE's initial location and on DW_CFA_set_loc operands."
    }
    fn assumptions(&self) -> Vec<&'static str> {
        vec![
            "requests that the writer refuses in only one of the two address representations are skipped (validity checks that compare address values see symbols differently)",
            "the relocation table ignores the stored bytes (RELA-style); sections are placed at address 0",
        ]
    }
    fn max_len(&self) -> usize {
        900
    }
    fn cases(&self, tier: Tier, dev: bool) -> u64 {
        match (tier, dev) {
            (Tier::Quick, false) => 30_000,
            (Tier::Quick, true) => 5_000,
            (Tier::Thorough, false) => 1_500_000,
            (Tier::Thorough, true) => 150_000,
        }
    }
    fn run_case(&self, ch: &mut Choices, cx: &mut Ctx) -> R {
        if ch.chance(80) {
            check_frames(ch, cx)
        } else if ch.chance(40) {
            check_line_reader(ch, cx)
        } else if ch.chance(30) {
            check_frame_reader(ch, cx)
        } else {
            check_units(ch, cx)
        }
    }
}
