//! Drivers: parent (spawns one worker process per build profile, merges,
//! writes evidence), worker (threads: replay tier, exhaustive shards, proptest
//! random search with shrinking), strict replay.
#![allow(dead_code)]

use crate::core::*;
use proptest::strategy::{Strategy, ValueTree};
use proptest::test_runner::{Config, RngSeed, TestCaseError, TestError, TestRunner};
use serde_json::{json, Value};
use std::collections::BTreeMap;
use std::io::Write;
use std::path::{Path, PathBuf};
use std::process::{Command, Stdio};
use std::sync::Mutex;
use std::time::{Duration, Instant};

pub fn verif_root() -> PathBuf {
    if let Ok(p) = std::env::var("VERIF_ROOT") {
        return PathBuf::from(p);
    }
    // exe is <root>/target/<profile>/vpcheck
    let exe = std::env::current_exe().unwrap();
    exe.parent().and_then(|p| p.parent()).and_then(|p| p.parent()).map(|p| p.to_path_buf()).unwrap_or_else(|| PathBuf::from("/verif"))
}

pub fn profile_name() -> &'static str {
    if cfg!(debug_assertions) {
        "dev"
    } else {
        "release"
    }
}

pub fn load_known(prop: &str) -> Vec<Known> {
    let path = verif_root().join("known_findings.json");
    let Ok(text) = std::fs::read_to_string(&path) else { return Vec::new() };
    let Ok(v) = serde_json::from_str::<Value>(&text) else { return Vec::new() };
    let mut out = Vec::new();
    if let Some(arr) = v.get("findings").and_then(|f| f.as_array()) {
        for e in arr {
            if e.get("status").and_then(|s| s.as_str()) != Some("known") {
                continue;
            }
            if e.get("property").and_then(|s| s.as_str()) != Some(prop) {
                continue;
            }
            out.push(Known {
                id: e.get("id").and_then(|s| s.as_str()).unwrap_or("?").to_string(),
                property: prop.to_string(),
                signature: e.get("signature").and_then(|s| s.as_str()).unwrap_or("\u{0}").to_string(),
                what: e.get("what").and_then(|s| s.as_str()).unwrap_or("").to_string(),
            });
        }
    }
    out
}

static REPLAY_COUNTER: Mutex<u32> = Mutex::new(0);

pub fn write_replay(prop: &str, mode: &str, profile: &str, data: &[u8], f: &Failure) -> String {
    let dir = verif_root().join("work").join("violations");
    let _ = std::fs::create_dir_all(&dir);
    let h = fnv64(&[data, mode.as_bytes(), f.sig.as_bytes()].concat());
    let path = dir.join(format!("{}-{}-{:016x}.json", prop, profile, h));
    let v = json!({
        "property": prop, "mode": mode, "profile": profile,
        "data": hex(data), "signature": f.sig, "detail": f.detail,
    });
    let _ = std::fs::write(&path, serde_json::to_string_pretty(&v).unwrap());
    let _ = REPLAY_COUNTER.lock().map(|mut c| *c += 1);
    path.to_string_lossy().to_string()
}

struct CurFile {
    f: std::fs::File,
}

impl CurFile {
    fn new(path: &Path) -> Option<CurFile> {
        std::fs::File::create(path).ok().map(|f| CurFile { f })
    }
    fn set(&mut self, data: &[u8]) {
        use std::os::unix::fs::FileExt;
        let mut buf = Vec::with_capacity(data.len() + 4);
        buf.extend_from_slice(&(data.len() as u32).to_le_bytes());
        buf.extend_from_slice(data);
        let _ = self.f.write_all_at(&buf, 0);
    }
}

fn read_cur(path: &Path) -> Option<Vec<u8>> {
    let b = std::fs::read(path).ok()?;
    if b.len() < 4 {
        return None;
    }
    let n = u32::from_le_bytes([b[0], b[1], b[2], b[3]]) as usize;
    if b.len() < 4 + n {
        return None;
    }
    Some(b[4..4 + n].to_vec())
}

/// Run one case through the property, with panic capture and known-finding tolerance.
pub fn run_one(prop: &dyn Prop, data: &[u8], cx: &mut Ctx) -> (R, usize) {
    let mut ch = Choices::new(data);
    watch_begin("choices", data);
    let r = match catch("case", || prop.run_case(&mut ch, cx)) {
        Ok(r) => r,
        Err(e) => Err(e),
    };
    LAST_CASE_MS.with(|c| c.set(watch_end()));
    let used = ch.consumed().len();
    let r = match r {
        Ok(()) => Ok(()),
        Err(e) => cx.report(e),
    };
    (r, used)
}

thread_local! {
    static LAST_CASE_MS: std::cell::Cell<u64> = const { std::cell::Cell::new(0) };
}

fn account(stats: &mut Stats, cx: &Ctx, known: &[Known], data_used: &[u8]) {
    stats.evaluations += 1;
    stats.max_case_ms = stats.max_case_ms.max(LAST_CASE_MS.with(|c| c.get()));
    if cx.nontrivial {
        stats.nontrivial_total += 1;
        stats.nt_hashes.insert(fnv64(data_used));
        if let Some(s) = &cx.sample {
            if stats.samples.len() < MAX_SAMPLES {
                stats.samples.push(s.clone());
            }
        }
    }
    for l in &cx.labels {
        stats.bump(l, 1);
    }
    for i in &cx.known_hits {
        *stats.known_hits.entry(known[*i].id.clone()).or_insert(0) += 1;
    }
}

fn replay_dir_entries(prop: &str) -> Vec<PathBuf> {
    let dir = verif_root().join("replays").join(prop);
    let mut v: Vec<PathBuf> = std::fs::read_dir(dir)
        .map(|rd| rd.filter_map(|e| e.ok().map(|e| e.path())).filter(|p| p.extension().map(|e| e == "json").unwrap_or(false)).collect())
        .unwrap_or_default();
    v.sort();
    v
}

pub fn load_replay(path: &Path) -> Option<(String, String, Vec<u8>)> {
    let text = std::fs::read_to_string(path).ok()?;
    if let Ok(v) = serde_json::from_str::<Value>(&text) {
        let mode = v.get("mode")?.as_str()?.to_string();
        let prop = v.get("property")?.as_str()?.to_string();
        let data = unhex(v.get("data")?.as_str()?);
        return Some((prop, mode, data));
    }
    None
}

/// The worker thread body.
fn worker_thread(prop: &'static dyn Prop, tier: Tier, seed: u64, t: usize, nthreads: usize, known: &[Known], curdir: &Path) -> Stats {
    let dev = cfg!(debug_assertions);
    watch_register(t);
    let mut stats = Stats::default();
    let mut cur = CurFile::new(&curdir.join(format!("{}.{}.{}.cur", prop.id(), profile_name(), t)));

    // 1. replay tier (thread 0)
    if t == 0 {
        for p in replay_dir_entries(prop.id()) {
            if let Some((_pid, mode, data)) = load_replay(&p) {
                let mut cx = Ctx::new(known, false, dev);
                let r = if mode == "choices" {
                    if let Some(c) = cur.as_mut() {
                        c.set(&data);
                    }
                    run_one(prop, &data, &mut cx).0
                } else {
                    match catch("replay", || prop.replay_special(&mode, &data, &mut cx)) {
                        Ok(r) => r.or_else(|e| cx.report(e)),
                        Err(e) => cx.report(e),
                    }
                };
                stats.evaluations += 1;
                stats.bump("replay-tier", 1);
                for i in &cx.known_hits {
                    *stats.known_hits.entry(known[*i].id.clone()).or_insert(0) += 1;
                }
                if let Err(e) = r {
                    stats.failures.push((e, p.to_string_lossy().to_string()));
                }
            }
        }
    }

    // 2. exhaustive shards
    {
        let mut ex = Exhaust { stats: &mut stats, known, dev, prop_id: prop.id(), profile: profile_name(), stop: false };
        prop.exhaustive(tier, dev, t, nthreads, &mut ex);
    }
    if !stats.failures.is_empty() {
        return stats;
    }

    // 3. random search with shrinking
    // the quick tier is fixed work sized to roughly 5-20 seconds per property on 16 cores
    let quick_scale: u64 = match prop.id() {
        "C03" => 2,
        "C04" | "C12" | "C19" => 16,
        "C01" | "C09" | "C15" => 12,
        _ => 24,
    };
    // thorough: the per-property base counts times 10 (minutes per property on 16 cores)
    let thorough_scale: u64 = if prop.id() == "C03" { 2 } else { 10 };
    let total = prop.cases(tier, dev) * if tier == Tier::Quick { quick_scale } else { thorough_scale };
    // internal knob (coverage measurements, smoke runs): percentage of the tier's random cases
    let total = match std::env::var("VERIF_CASE_SCALE_PCT").ok().and_then(|s| s.parse::<u64>().ok()) {
        Some(p) => (total * p / 100).max(1),
        None => total,
    };
    let cases = (total / nthreads as u64) + if (t as u64) < total % nthreads as u64 { 1 } else { 0 };
    if cases == 0 {
        return stats;
    }
    let config = Config {
        cases: cases.min(u32::MAX as u64) as u32,
        failure_persistence: None,
        rng_seed: RngSeed::Fixed(mix_seed(seed, &[prop.id(), profile_name()], t as u64)),
        max_shrink_iters: 3000,
        max_global_rejects: 1 << 30,
        ..Config::default()
    };
    let mut runner = TestRunner::new(config);
    let strat = proptest::collection::vec(proptest::num::u8::ANY, 0..prop.max_len());
    struct St<'s> {
        cur: Option<CurFile>,
        stats: &'s mut Stats,
        first_sig: Option<String>,
        first_fail: Option<Failure>,
        last_fail: Option<Failure>,
    }
    let st = std::cell::RefCell::new(St { cur, stats: &mut stats, first_sig: None, first_fail: None, last_fail: None });
    let result = runner.run(&strat, |data| {
        let mut guard = st.borrow_mut();
        let st = &mut *guard;
        if let Some(c) = st.cur.as_mut() {
            c.set(&data);
        }
        let mut cx = Ctx::new(known, false, dev);
        cx.want_sample = st.first_sig.is_none() && st.stats.samples.len() < MAX_SAMPLES;
        let (r, used) = run_one(prop, &data, &mut cx);
        match r {
            Ok(()) => {
                if st.first_sig.is_none() {
                    account(st.stats, &cx, known, &data[..used.min(data.len())]);
                }
                Ok(())
            }
            Err(e) => match &st.first_sig {
                None => {
                    st.first_sig = Some(e.sig.clone());
                    st.first_fail = Some(e.clone());
                    st.last_fail = Some(e.clone());
                    Err(TestCaseError::fail(e.sig))
                }
                Some(s) if *s == e.sig => {
                    st.last_fail = Some(e.clone());
                    Err(TestCaseError::fail(e.sig))
                }
                // a different defect: not "still failing" for shrinking purposes
                Some(_) => Ok(()),
            },
        }
    });
    let St { last_fail, first_fail, .. } = st.into_inner();
    match result {
        Ok(()) => {}
        Err(TestError::Fail(_, data)) => {
            let f = last_fail.or(first_fail).unwrap_or(Failure { sig: "?".into(), detail: "?".into() });
            // re-run the minimal input to get its own detail text
            let mut cx = Ctx::new(known, false, dev);
            let f = match run_one(prop, &data, &mut cx).0 {
                Err(e) => e,
                Ok(()) => f,
            };
            let path = write_replay(prop.id(), "choices", profile_name(), &data, &f);
            stats.failures.push((f, path));
        }
        Err(TestError::Abort(r)) => {
            stats.notes.push(format!("proptest aborted: {}", r));
        }
    }
    stats
}

fn stats_to_json(s: &Stats) -> Value {
    json!({
        "evaluations": s.evaluations,
        "exhaustive_evals": s.exhaustive_evals,
        "nontrivial_total": s.nontrivial_total,
        "distinct_nontrivial": s.nt_hashes.len() as u64 + s.nt_exhaustive,
        "labels": s.labels,
        "samples": s.samples,
        "known_hits": s.known_hits,
        "failures": s.failures.iter().map(|(f, p)| json!({"sig": f.sig, "detail": f.detail, "replay": p})).collect::<Vec<_>>(),
        "exhaustive_complete": s.exhaustive_complete,
        "notes": s.notes,
        "max_case_ms": s.max_case_ms,
    })
}

/// Worker process entry: `--worker ID tier seed threads out.json`
pub fn worker_main(prop: &'static dyn Prop, tier: Tier, seed: u64, nthreads: usize, out: &Path) -> i32 {
    install_panic_hook();
    // resource limits: address space 6 GiB so allocation failure is deterministic-ish
    unsafe {
        let lim = libc::rlimit { rlim_cur: 8 << 30, rlim_max: 8 << 30 };
        libc::setrlimit(libc::RLIMIT_AS, &lim);
    }
    let known = load_known(prop.id());
    let curdir = verif_root().join("work").join("cur");
    let _ = std::fs::create_dir_all(&curdir);
    let start = Instant::now();
    let mut merged = Stats::default();
    // hang monitor: a case that has been running for HANG_REPORT_SECS is written next to the result file; the parent
    // replays it in a fresh process and decides (the worker itself carries on)
    let hang_path = PathBuf::from(format!("{}.hang.json", out.display()));
    let _ = std::fs::remove_file(&hang_path);
    let done = std::sync::Arc::new(std::sync::atomic::AtomicBool::new(false));
    {
        let done = done.clone();
        let hang_path = hang_path.clone();
        let pid = prop.id();
        std::thread::spawn(move || {
            use std::sync::atomic::Ordering::SeqCst;
            while !done.load(SeqCst) {
                std::thread::sleep(Duration::from_millis(250));
                let now = now_ms();
                for (i, s) in WATCH.iter().enumerate() {
                    let t0 = s.since_ms.load(SeqCst);
                    if t0 != 0 && now.saturating_sub(t0) > HANG_REPORT_SECS * 1000 && !s.reported.swap(true, SeqCst) && !hang_path.exists() {
                        if let Ok(g) = s.info.lock() {
                            let v = json!({"property": pid, "mode": g.0, "profile": profile_name(), "data": hex(&g.1), "thread": i,
                                "signature": "hang", "detail": format!("case still running after {} s", HANG_REPORT_SECS)});
                            let tmp = PathBuf::from(format!("{}.tmp", hang_path.display()));
                            if std::fs::write(&tmp, v.to_string()).is_ok() {
                                let _ = std::fs::rename(&tmp, &hang_path);
                            }
                        }
                    }
                }
            }
        });
    }
    std::thread::scope(|sc| {
        let mut hs = Vec::new();
        for t in 0..nthreads {
            let known = &known;
            let curdir = &curdir;
            let h = std::thread::Builder::new()
                .stack_size(16 << 20)
                .name(format!("w{}", t))
                .spawn_scoped(sc, move || worker_thread(prop, tier, seed, t, nthreads, known, curdir))
                .unwrap();
            hs.push(h);
        }
        for h in hs {
            match h.join() {
                Ok(s) => merged.merge(s),
                Err(_) => merged.notes.push("worker thread panicked outside a case (harness bug)".into()),
            }
        }
    });
    done.store(true, std::sync::atomic::Ordering::SeqCst);
    let mut v = stats_to_json(&merged);
    v["wall_s"] = json!(start.elapsed().as_secs_f64());
    v["profile"] = json!(profile_name());
    std::fs::write(out, serde_json::to_string(&v).unwrap()).unwrap();
    0
}

/// Strict replay of one file: prints what happened, exit 0 if the property holds on it.
pub fn replay_main(prop: &'static dyn Prop, path: &Path, raw: bool) -> i32 {
    install_panic_hook();
    let (mode, data) = if raw {
        ("choices".to_string(), std::fs::read(path).expect("read replay"))
    } else {
        match load_replay(path) {
            Some((_p, m, d)) => (m, d),
            None => ("choices".to_string(), std::fs::read(path).expect("read replay")),
        }
    };
    let (tx, rx) = std::sync::mpsc::channel::<()>();
    let pid = prop.id();
    let shown = path.display().to_string();
    // a replayed case that does not terminate is reported instead of hanging the replay
    std::thread::spawn(move || loop {
        if !matches!(rx.recv_timeout(Duration::from_secs(1)), Err(std::sync::mpsc::RecvTimeoutError::Timeout)) {
            break;
        }
        // (CPU time of this process, so that a loaded machine cannot make a slow case look like a hang)
        if process_cpu_secs(std::process::id()).is_some_and(|c| c > (HANG_CONFIRM_SECS + 60) as f64) {
            println!("signature: hang");
            println!("detail: the case did not finish within {} s of CPU time", HANG_CONFIRM_SECS + 60);
            println!("VIOLATION property={} replay={}", pid, shown);
            std::process::exit(1);
        }
    });
    let res = std::thread::Builder::new()
        .stack_size(16 << 20)
        .spawn(move || {
            let known: Vec<Known> = Vec::new();
            let mut cx = Ctx::new(&known, true, cfg!(debug_assertions));
            cx.verbose = true;
            let r = if mode == "choices" {
                run_one(prop, &data, &mut cx).0
            } else {
                match catch("replay", || prop.replay_special(&mode, &data, &mut cx)) {
                    Ok(r) => r,
                    Err(e) => Err(e),
                }
            };
            if let Some(s) = &cx.sample {
                println!("case: {}", s);
            }
            r
        })
        .unwrap()
        .join();
    let _ = tx.send(());
    match res {
        Ok(Ok(())) => {
            println!("REPLAY-OK property={} profile={} file={}", prop.id(), profile_name(), path.display());
            0
        }
        Ok(Err(e)) => {
            println!("signature: {}", e.sig);
            println!("detail: {}", e.detail);
            println!("VIOLATION property={} replay={}", prop.id(), path.display());
            1
        }
        Err(_) => {
            println!("VIOLATION property={} replay={}", prop.id(), path.display());
            1
        }
    }
}

/// A case still running after this many seconds is handed to the parent, which replays it alone ...
pub const HANG_REPORT_SECS: u64 = 30;
/// ... and reports non-termination if the replay does not finish within this many seconds either.
pub const HANG_CONFIRM_SECS: u64 = 120;

struct Child {
    profile: &'static str,
    child: std::process::Child,
    out: PathBuf,
}

fn exe_for(profile: &str) -> PathBuf {
    let dir = if profile == "dev" { "debug" } else { "release" };
    if let Ok(t) = std::env::var("VERIF_TARGET") {
        return PathBuf::from(t).join(dir).join("vpcheck");
    }
    verif_root().join("target").join(dir).join("vpcheck")
}

/// Parent: run both profiles, merge, write evidence, print verdict lines.
pub fn parent_main(prop: &'static dyn Prop, tier: Tier, seed: u64) -> i32 {
    let start = Instant::now();
    let root = verif_root();
    let work = root.join("work");
    let _ = std::fs::create_dir_all(work.join("cur"));
    let _ = std::fs::create_dir_all(root.join("evidence"));
    let ncpu = std::thread::available_parallelism().map(|n| n.get()).unwrap_or(8).max(2);
    let profiles: Vec<&'static str> = match std::env::var("VERIF_PROFILES").ok().as_deref() {
        Some("dev") => vec!["dev"],
        Some("release") => vec!["release"],
        _ => vec!["release", "dev"],
    };
    let per = (ncpu / profiles.len()).max(1);
    // clear stale cur files
    for p in &profiles {
        for t in 0..64 {
            let _ = std::fs::remove_file(work.join("cur").join(format!("{}.{}.{}.cur", prop.id(), p, t)));
        }
    }
    let mut children = Vec::new();
    for p in &profiles {
        let exe = exe_for(p);
        if !exe.exists() {
            println!("INCONCLUSIVE: missing worker binary {}", exe.display());
            return 2;
        }
        let out = work.join(format!("{}.{}.result.json", prop.id(), p));
        let _ = std::fs::remove_file(&out);
        let child = Command::new(&exe)
            .arg("--worker")
            .arg(prop.id())
            .arg(tier.name())
            .arg(seed.to_string())
            .arg(per.to_string())
            .arg(&out)
            .env("VERIF_ROOT", &root)
            .stdin(Stdio::null())
            .spawn()
            .expect("spawn worker");
        children.push(Child { profile: p, child, out });
    }
    let limit = Duration::from_secs(match tier {
        // (20-40 times the usual duration: a last resort only - a case that does not terminate is caught by the hang
        // monitor long before; the margin is for machines loaded by other work)
        Tier::Quick => 2400,
        Tier::Thorough => 4 * 3600,
    });
    let mut results: Vec<(&'static str, Value)> = Vec::new();
    let mut violations: Vec<(String, String, String)> = Vec::new(); // sig, detail, replay
    let mut inconclusive: Vec<String> = Vec::new();
    let mut slow_notes: Vec<String> = Vec::new();
    for mut c in children {
        let hang_path = PathBuf::from(format!("{}.hang.json", c.out.display()));
        let mut hang_confirmed = false;
        let status = loop {
            match c.child.try_wait() {
                Ok(Some(st)) => break Some(st),
                Ok(None) => {
                    if hang_path.exists() {
                        // a case has been running for HANG_REPORT_SECS: does it also fail to finish in a fresh process?
                        if let Some((_p, mode, data)) = load_replay(&hang_path) {
                            let f = Failure { sig: format!("hang/{}", mode), detail: format!("the case did not finish within {} s in the {} worker nor within {} s of CPU time replayed alone in a fresh process", HANG_REPORT_SECS, c.profile, HANG_CONFIRM_SECS) };
                            let path = write_replay(prop.id(), &mode, c.profile, &data, &f);
                            match run_replay_probe_cpu(c.profile, prop.id(), Path::new(&path), &root, HANG_CONFIRM_SECS, 20 * HANG_CONFIRM_SECS) {
                                Probe::CpuTimeout => {
                                    violations.push((f.sig, f.detail, path));
                                    hang_confirmed = true;
                                    let _ = c.child.kill();
                                    let _ = c.child.wait();
                                    let _ = std::fs::remove_file(&hang_path);
                                    break None;
                                }
                                Probe::WallTimeout => {
                                    // neither finished nor computing: the machine is too loaded to tell
                                    let _ = std::fs::remove_file(&path);
                                    slow_notes.push(format!("{}: a case ran for more than {} s in the worker and its replay got less than {} s of CPU time in {} s (machine load): undecided", c.profile, HANG_REPORT_SECS, HANG_CONFIRM_SECS, 20 * HANG_CONFIRM_SECS));
                                }
                                _ => {
                                    let _ = std::fs::remove_file(&path);
                                    slow_notes.push(format!("{}: a case ran for more than {} s in the worker but finished when replayed alone (machine load)", c.profile, HANG_REPORT_SECS));
                                }
                            }
                        }
                        let _ = std::fs::remove_file(&hang_path);
                    }
                    if start.elapsed() > limit {
                        let _ = c.child.kill();
                        let _ = c.child.wait();
                        break None;
                    }
                    std::thread::sleep(Duration::from_millis(50));
                }
                Err(_) => break None,
            }
        };
        match status {
            None if hang_confirmed => {}
            None => inconclusive.push(format!("{} worker exceeded the watchdog", c.profile)),
            Some(st) if st.success() => match {
                // (read again a few times before giving up: the file is written just before the worker exits)
                let mut got = None;
                let mut why = String::new();
                for _ in 0..20 {
                    match std::fs::read_to_string(&c.out) {
                        Ok(t) => match serde_json::from_str::<Value>(&t) {
                            Ok(v) => {
                                got = Some(v);
                                break;
                            }
                            Err(e) => why = format!("unparsable result ({} bytes): {}", t.len(), e),
                        },
                        Err(e) => why = format!("unreadable result {}: {}", c.out.display(), e),
                    }
                    std::thread::sleep(Duration::from_millis(100));
                }
                got.ok_or(why)
            } {
                Ok(v) => results.push((c.profile, v)),
                Err(why) => inconclusive.push(format!("{} worker wrote no result: {}", c.profile, why)),
            },
            Some(st) => {
                // abort-class: find which thread's current case kills a fresh process
                use std::os::unix::process::ExitStatusExt;
                let sigdesc = format!("signal={:?} code={:?}", st.signal(), st.code());
                let mut found = false;
                for t in 0..per {
                    let cur = work.join("cur").join(format!("{}.{}.{}.cur", prop.id(), c.profile, t));
                    if let Some(data) = read_cur(&cur) {
                        let f = Failure { sig: "abort".into(), detail: format!("worker process died ({})", sigdesc) };
                        let path = write_replay(prop.id(), "choices", c.profile, &data, &f);
                        let st2 = run_replay_probe(c.profile, prop.id(), Path::new(&path), &root, 60);
                        match st2 {
                            Ok(Some(0)) => {
                                let _ = std::fs::remove_file(&path);
                            }
                            Ok(s2) => {
                                found = true;
                                let min = minimise_abort(prop.id(), c.profile, &data, &root);
                                let f = Failure {
                                    sig: format!("abort/{}", if s2.is_some() { "replay-fails" } else { "killed-by-signal" }),
                                    detail: format!("worker died ({}); the saved case reproduces it in a fresh process", sigdesc),
                                };
                                let _ = std::fs::remove_file(&path);
                                let path = write_replay(prop.id(), "choices", c.profile, &min, &f);
                                violations.push((f.sig, f.detail, path));
                                break;
                            }
                            Err(_) => {}
                        }
                    }
                }
                if !found {
                    inconclusive.push(format!("{} worker died ({}) and no saved case reproduces it (exhaustive mode or resource kill)", c.profile, sigdesc));
                }
            }
        }
    }

    // merge
    let mut evaluations = 0u64;
    let mut distinct = 0u64;
    let mut exhaustive_evals = 0u64;
    let mut labels: BTreeMap<String, u64> = BTreeMap::new();
    let mut samples: Vec<Value> = Vec::new();
    let mut known_hits: BTreeMap<String, u64> = BTreeMap::new();
    let mut per_profile = serde_json::Map::new();
    let mut complete: Vec<String> = Vec::new();
    let mut notes: Vec<String> = slow_notes;
    let mut max_case_ms = 0u64;
    for (p, v) in &results {
        max_case_ms = max_case_ms.max(v["max_case_ms"].as_u64().unwrap_or(0));
        let ev = v["evaluations"].as_u64().unwrap_or(0);
        let dn = v["distinct_nontrivial"].as_u64().unwrap_or(0);
        evaluations += ev;
        distinct += dn;
        exhaustive_evals += v["exhaustive_evals"].as_u64().unwrap_or(0);
        per_profile.insert(p.to_string(), json!({"evaluations": ev, "distinct_nontrivial": dn, "wall_s": v["wall_s"]}));
        if let Some(m) = v["labels"].as_object() {
            for (k, n) in m {
                *labels.entry(k.clone()).or_insert(0) += n.as_u64().unwrap_or(0);
            }
        }
        if let Some(a) = v["samples"].as_array() {
            for s in a.iter().take(MAX_SAMPLES) {
                samples.push(json!({"profile": p, "case": s}));
            }
        }
        if let Some(m) = v["known_hits"].as_object() {
            for (k, n) in m {
                *known_hits.entry(k.clone()).or_insert(0) += n.as_u64().unwrap_or(0);
            }
        }
        if let Some(a) = v["failures"].as_array() {
            for f in a {
                violations.push((
                    f["sig"].as_str().unwrap_or("?").to_string(),
                    f["detail"].as_str().unwrap_or("").to_string(),
                    f["replay"].as_str().unwrap_or("").to_string(),
                ));
            }
        }
        if let Some(a) = v["exhaustive_complete"].as_array() {
            for e in a {
                let e = format!("{}:{}", p, e.as_str().unwrap_or(""));
                complete.push(e);
            }
        }
        if let Some(a) = v["notes"].as_array() {
            for e in a {
                notes.push(format!("{}: {}", p, e.as_str().unwrap_or("")));
            }
        }
    }
    // dedupe violations by signature
    let mut seen = std::collections::HashSet::new();
    violations.retain(|(s, _, _)| seen.insert(s.clone()));

    let known = load_known(prop.id());
    for k in &known {
        println!(
            "KNOWN-FINDING: property={} {} [id={} hits-this-run={}]",
            prop.id(),
            k.what,
            k.id,
            known_hits.get(&k.id).copied().unwrap_or(0)
        );
    }
    for (sig, detail, replay) in &violations {
        println!("violation signature: {}", sig);
        println!("violation detail: {}", detail.chars().take(2000).collect::<String>());
        println!("VIOLATION property={} replay={}", prop.id(), replay);
    }
    for i in &inconclusive {
        println!("INCONCLUSIVE: {}", i);
    }
    let wall = start.elapsed().as_secs_f64();
    if samples.is_empty() {
        samples.push(json!("(no sample recorded)"));
    }
    let ev = json!({
        "property_id": prop.id(),
        "tier": tier.name(),
        "seed": seed,
        "level": "exploration",
        "coverage": {
            "evaluations": evaluations,
            "distinct_nontrivial": distinct,
            "rule": prop.rule(),
            "samples": samples,
            "exhaustive": false,
            "exhaustive_subdomains_completed": complete,
            "exhaustive_evaluations": exhaustive_evals,
            "classes": labels,
            "per_profile": per_profile,
            "excluded_by_known_finding": known_hits,
            "notes": notes,
            "longest_case_ms": max_case_ms,
        },
        "assumptions": prop.assumptions(),
        "wall_s": wall,
        "violations": violations.len(),
    });
    let evpath = root.join("evidence").join(format!("{}.json", prop.id()));
    let mut f = std::fs::File::create(&evpath).expect("evidence file");
    f.write_all(serde_json::to_string_pretty(&ev).unwrap().as_bytes()).unwrap();
    println!(
        "{} {} seed={} evaluations={} distinct_nontrivial={} violations={} wall={:.1}s",
        prop.id(),
        tier.name(),
        seed,
        evaluations,
        distinct,
        violations.len(),
        wall
    );
    if !violations.is_empty() {
        1
    } else if !inconclusive.is_empty() {
        2
    } else {
        0
    }
}

/// Run a replay subprocess with a timeout. Returns Some(exit code) / None when killed by a signal; Err(()) on timeout.
fn run_replay_probe(profile: &str, prop: &str, path: &Path, root: &Path, secs: u64) -> Result<Option<i32>, ()> {
    let mut child = match Command::new(exe_for(profile)).arg(prop).arg("--replay").arg(path).env("VERIF_ROOT", root).stdout(Stdio::null()).stderr(Stdio::null()).spawn() {
        Ok(c) => c,
        Err(_) => return Err(()),
    };
    let start = Instant::now();
    loop {
        match child.try_wait() {
            Ok(Some(st)) => return Ok(st.code()),
            Ok(None) => {
                if start.elapsed() > Duration::from_secs(secs) {
                    let _ = child.kill();
                    let _ = child.wait();
                    return Err(());
                }
                std::thread::sleep(Duration::from_millis(10));
            }
            Err(_) => return Err(()),
        }
    }
}

/// CPU time (user + system) a live process has used so far, in seconds (from /proc/<pid>/stat).
fn process_cpu_secs(pid: u32) -> Option<f64> {
    let t = std::fs::read_to_string(format!("/proc/{}/stat", pid)).ok()?;
    // the command name may contain spaces: fields are counted after the closing parenthesis
    let rest = &t[t.rfind(')')? + 2..];
    let f: Vec<&str> = rest.split_whitespace().collect();
    let utime: f64 = f.get(11)?.parse().ok()?;
    let stime: f64 = f.get(12)?.parse().ok()?;
    let hz = unsafe { libc::sysconf(libc::_SC_CLK_TCK) } as f64;
    Some((utime + stime) / if hz > 0.0 { hz } else { 100.0 })
}

pub enum Probe {
    Exited(Option<i32>),
    /// used more CPU time than allowed: it is computing, not waiting for the machine
    CpuTimeout,
    /// still alive after the (much longer) wall-clock allowance without having used the CPU allowance
    WallTimeout,
    SpawnFailed,
}

/// Run a replay subprocess; the allowance that decides "does not terminate" is CPU time, so that a loaded machine
/// cannot turn a slow case into a hang report.
fn run_replay_probe_cpu(profile: &str, prop: &str, path: &Path, root: &Path, cpu_secs: u64, wall_secs: u64) -> Probe {
    let mut child = match Command::new(exe_for(profile)).arg(prop).arg("--replay").arg(path).env("VERIF_ROOT", root).stdout(Stdio::null()).stderr(Stdio::null()).spawn() {
        Ok(c) => c,
        Err(_) => return Probe::SpawnFailed,
    };
    let start = Instant::now();
    loop {
        match child.try_wait() {
            Ok(Some(st)) => return Probe::Exited(st.code()),
            Ok(None) => {
                if process_cpu_secs(child.id()).is_some_and(|c| c > cpu_secs as f64) {
                    let _ = child.kill();
                    let _ = child.wait();
                    return Probe::CpuTimeout;
                }
                if start.elapsed() > Duration::from_secs(wall_secs) {
                    let _ = child.kill();
                    let _ = child.wait();
                    return Probe::WallTimeout;
                }
                std::thread::sleep(Duration::from_millis(50));
            }
            Err(_) => return Probe::SpawnFailed,
        }
    }
}

/// Delta-debug an abort-class input: each probe is a subprocess.
fn minimise_abort(prop: &str, profile: &str, data: &[u8], root: &Path) -> Vec<u8> {
    let tmp = root.join("work").join("violations").join(format!("{}-{}-minprobe.json", prop, profile));
    let fails = |d: &[u8]| -> bool {
        let v = json!({"property": prop, "mode": "choices", "profile": profile, "data": hex(d)});
        if std::fs::write(&tmp, v.to_string()).is_err() {
            return false;
        }
        matches!(run_replay_probe(profile, prop, &tmp, root, 20), Ok(None)) // died by signal
    };
    let mut cur = data.to_vec();
    let mut probes = 0;
    let mut chunk = cur.len() / 2;
    while chunk >= 1 && probes < 200 {
        let mut i = 0;
        let mut changed = false;
        while i + chunk <= cur.len() && probes < 200 {
            let mut cand = cur.clone();
            cand.drain(i..i + chunk);
            probes += 1;
            if fails(&cand) {
                cur = cand;
                changed = true;
            } else {
                i += chunk;
            }
        }
        if !changed {
            chunk /= 2;
        }
    }
    let _ = std::fs::remove_file(&tmp);
    cur
}

// keep ValueTree/Strategy imports used
#[allow(unused)]
fn _unused<S: Strategy>(s: &S, r: &mut TestRunner) {
    let _ = s.new_tree(r).map(|t| t.current());
}
