//! Reference model of DWARF expressions: operation AST, encoder (assembler),
//! independent decoder and stack machine (DESIGN.md appendix A.1).
//! Shares nothing with gimli beyond numeric opcode values from the standard.
#![allow(dead_code)]

use crate::enc::{mask, Cfg, W};

#[derive(Clone, Debug, PartialEq)]
pub enum MOp {
    Addr(u64),
    Lit(u8),
    /// kind: 0 const1u 1 const1s 2 const2u 3 const2s 4 const4u 5 const4s 6 const8u 7 const8s 8 constu 9 consts
    Const(u8, u64),
    Dup,
    Drop,
    Over,
    Pick(u8),
    Swap,
    Rot,
    Abs,
    And,
    Div,
    Minus,
    Mod,
    Mul,
    Neg,
    Not,
    Or,
    Plus,
    PlusUconst(u64),
    Shl,
    Shr,
    Shra,
    Xor,
    Eq,
    Ge,
    Gt,
    Le,
    Lt,
    Ne,
    Skip(i16),
    Bra(i16),
    Deref,
    DerefSize(u8),
    XDeref,
    XDerefSize(u8),
    DerefType(u8, u64, bool),  // size, type, gnu
    XDerefType(u8, u64),
    Reg(u8),
    Regx(u64),
    Breg(u8, i64),
    Bregx(u64, i64),
    RegvalType(u64, u64, bool),
    Fbreg(i64),
    Piece(u64),
    BitPiece(u64, u64),
    ImplicitValue(Vec<u8>),
    StackValue,
    ImplicitPointer(u64, i64, bool),
    Nop,
    PushObjectAddress,
    Call2(u16),
    Call4(u32),
    CallRef(u64),
    Tls(bool),
    CallFrameCfa,
    EntryValue(Vec<u8>, bool),
    ParameterRef(u32),
    Addrx(u64, bool),
    Constx(u64, bool),
    ConstType(u64, Vec<u8>, bool),
    Convert(u64, bool),
    Reinterpret(u64, bool),
    VariableValue(u64),
    Uninit,
    /// DW_OP_WASM_location kind (0 local, 1 global uleb, 2 stack, 3 global u32), index
    Wasm(u8, u32),
    /// unknown / unsupported opcode byte
    Unknown(u8),
}

pub fn is_unknown_opcode(b: u8) -> bool {
    !matches!(b,
        0x03 | 0x06 | 0x08..=0x2f | 0x30..=0x9f | 0xa0..=0xa9 | 0xe0 | 0xf0 | 0xf2..=0xf7 | 0xf9..=0xfd | 0xed)
}

pub fn encode_op(op: &MOp, cfg: &Cfg, w: &mut W) {
    match op {
        MOp::Addr(a) => {
            w.u8(0x03).uint(*a, cfg.address_size);
        }
        MOp::Lit(n) => {
            w.u8(0x30 + (n & 31));
        }
        MOp::Const(k, v) => match k {
            0 => {
                w.u8(0x08).u8(*v as u8);
            }
            1 => {
                w.u8(0x09).u8(*v as u8);
            }
            2 => {
                w.u8(0x0a).u16(*v as u16);
            }
            3 => {
                w.u8(0x0b).u16(*v as u16);
            }
            4 => {
                w.u8(0x0c).u32(*v as u32);
            }
            5 => {
                w.u8(0x0d).u32(*v as u32);
            }
            6 => {
                w.u8(0x0e).u64(*v);
            }
            7 => {
                w.u8(0x0f).u64(*v);
            }
            8 => {
                w.u8(0x10).uleb(*v);
            }
            _ => {
                w.u8(0x11).sleb(*v as i64);
            }
        },
        MOp::Dup => {
            w.u8(0x12);
        }
        MOp::Drop => {
            w.u8(0x13);
        }
        MOp::Over => {
            w.u8(0x14);
        }
        MOp::Pick(i) => {
            w.u8(0x15).u8(*i);
        }
        MOp::Swap => {
            w.u8(0x16);
        }
        MOp::Rot => {
            w.u8(0x17);
        }
        MOp::XDeref => {
            w.u8(0x18);
        }
        MOp::Abs => {
            w.u8(0x19);
        }
        MOp::And => {
            w.u8(0x1a);
        }
        MOp::Div => {
            w.u8(0x1b);
        }
        MOp::Minus => {
            w.u8(0x1c);
        }
        MOp::Mod => {
            w.u8(0x1d);
        }
        MOp::Mul => {
            w.u8(0x1e);
        }
        MOp::Neg => {
            w.u8(0x1f);
        }
        MOp::Not => {
            w.u8(0x20);
        }
        MOp::Or => {
            w.u8(0x21);
        }
        MOp::Plus => {
            w.u8(0x22);
        }
        MOp::PlusUconst(v) => {
            w.u8(0x23).uleb(*v);
        }
        MOp::Shl => {
            w.u8(0x24);
        }
        MOp::Shr => {
            w.u8(0x25);
        }
        MOp::Shra => {
            w.u8(0x26);
        }
        MOp::Xor => {
            w.u8(0x27);
        }
        MOp::Bra(t) => {
            w.u8(0x28).u16(*t as u16);
        }
        MOp::Eq => {
            w.u8(0x29);
        }
        MOp::Ge => {
            w.u8(0x2a);
        }
        MOp::Gt => {
            w.u8(0x2b);
        }
        MOp::Le => {
            w.u8(0x2c);
        }
        MOp::Lt => {
            w.u8(0x2d);
        }
        MOp::Ne => {
            w.u8(0x2e);
        }
        MOp::Skip(t) => {
            w.u8(0x2f).u16(*t as u16);
        }
        MOp::Deref => {
            w.u8(0x06);
        }
        MOp::DerefSize(s) => {
            w.u8(0x94).u8(*s);
        }
        MOp::XDerefSize(s) => {
            w.u8(0x95).u8(*s);
        }
        MOp::DerefType(s, t, gnu) => {
            w.u8(if *gnu { 0xf6 } else { 0xa6 }).u8(*s).uleb(*t);
        }
        MOp::XDerefType(s, t) => {
            w.u8(0xa7).u8(*s).uleb(*t);
        }
        MOp::Reg(r) => {
            w.u8(0x50 + (r & 31));
        }
        MOp::Regx(r) => {
            w.u8(0x90).uleb(*r);
        }
        MOp::Breg(r, o) => {
            w.u8(0x70 + (r & 31)).sleb(*o);
        }
        MOp::Bregx(r, o) => {
            w.u8(0x92).uleb(*r).sleb(*o);
        }
        MOp::RegvalType(r, t, gnu) => {
            w.u8(if *gnu { 0xf5 } else { 0xa5 }).uleb(*r).uleb(*t);
        }
        MOp::Fbreg(o) => {
            w.u8(0x91).sleb(*o);
        }
        MOp::Piece(s) => {
            w.u8(0x93).uleb(*s);
        }
        MOp::BitPiece(s, o) => {
            w.u8(0x9d).uleb(*s).uleb(*o);
        }
        MOp::ImplicitValue(b) => {
            w.u8(0x9e).uleb(b.len() as u64).bytes(b);
        }
        MOp::StackValue => {
            w.u8(0x9f);
        }
        MOp::ImplicitPointer(v, o, gnu) => {
            w.u8(if *gnu { 0xf2 } else { 0xa0 });
            if cfg.version == 2 {
                w.uint(*v, cfg.address_size);
            } else {
                w.uint(*v, cfg.word());
            }
            w.sleb(*o);
        }
        MOp::Nop => {
            w.u8(0x96);
        }
        MOp::PushObjectAddress => {
            w.u8(0x97);
        }
        MOp::Call2(v) => {
            w.u8(0x98).u16(*v);
        }
        MOp::Call4(v) => {
            w.u8(0x99).u32(*v);
        }
        MOp::CallRef(v) => {
            w.u8(0x9a).uint(*v, cfg.word());
        }
        MOp::Tls(gnu) => {
            w.u8(if *gnu { 0xe0 } else { 0x9b });
        }
        MOp::CallFrameCfa => {
            w.u8(0x9c);
        }
        MOp::EntryValue(b, gnu) => {
            w.u8(if *gnu { 0xf3 } else { 0xa3 }).uleb(b.len() as u64).bytes(b);
        }
        MOp::ParameterRef(v) => {
            w.u8(0xfa).u32(*v);
        }
        MOp::Addrx(v, gnu) => {
            w.u8(if *gnu { 0xfb } else { 0xa1 }).uleb(*v);
        }
        MOp::Constx(v, gnu) => {
            w.u8(if *gnu { 0xfc } else { 0xa2 }).uleb(*v);
        }
        MOp::ConstType(t, b, gnu) => {
            w.u8(if *gnu { 0xf4 } else { 0xa4 }).uleb(*t).u8(b.len() as u8).bytes(b);
        }
        MOp::Convert(t, gnu) => {
            w.u8(if *gnu { 0xf7 } else { 0xa8 }).uleb(*t);
        }
        MOp::Reinterpret(t, gnu) => {
            w.u8(if *gnu { 0xf9 } else { 0xa9 }).uleb(*t);
        }
        MOp::VariableValue(v) => {
            w.u8(0xfd).uint(*v, cfg.word());
        }
        MOp::Uninit => {
            w.u8(0xf0);
        }
        MOp::Wasm(k, i) => {
            w.u8(0xed).u8(*k);
            if *k == 3 {
                w.u32(*i);
            } else {
                w.uleb(*i as u64);
            }
        }
        MOp::Unknown(b) => {
            w.u8(*b);
        }
    }
}

pub fn encode(ops: &[MOp], cfg: &Cfg) -> Vec<u8> {
    let mut w = W::new(cfg.big);
    for op in ops {
        encode_op(op, cfg, &mut w);
    }
    w.buf
}

pub fn op_len(op: &MOp, cfg: &Cfg) -> usize {
    let mut w = W::new(cfg.big);
    encode_op(op, cfg, &mut w);
    w.len()
}

// ---------------------------------------------------------------------------
// Independent decoder
// ---------------------------------------------------------------------------

#[derive(Debug, Clone, PartialEq)]
pub enum DecErr {
    Eof,
    Unknown(u8),
    /// LEB that does not fit / register number too large etc.: some error, kind not pinned
    Invalid,
}

struct Rd<'a> {
    b: &'a [u8],
    p: usize,
    big: bool,
}

impl<'a> Rd<'a> {
    fn u8(&mut self) -> Result<u8, DecErr> {
        let v = *self.b.get(self.p).ok_or(DecErr::Eof)?;
        self.p += 1;
        Ok(v)
    }
    fn uint(&mut self, n: usize) -> Result<u64, DecErr> {
        if self.p + n > self.b.len() {
            return Err(DecErr::Eof);
        }
        let s = &self.b[self.p..self.p + n];
        self.p += n;
        let mut v = 0u64;
        if self.big {
            for x in s {
                v = (v << 8) | *x as u64;
            }
        } else {
            for (i, x) in s.iter().enumerate() {
                v |= (*x as u64) << (8 * i);
            }
        }
        Ok(v)
    }
    fn sint(&mut self, n: usize) -> Result<i64, DecErr> {
        let v = self.uint(n)?;
        let sh = 64 - 8 * n as u32;
        Ok(((v << sh) as i64) >> sh)
    }
    fn uleb(&mut self) -> Result<u64, DecErr> {
        match crate::c09::leb_model(&self.b[self.p.min(self.b.len())..], false, 64) {
            crate::c09::Leb::Fits { value, len } => {
                self.p += len;
                if len > 10 {
                    Err(DecErr::Invalid)
                } else {
                    Ok(value)
                }
            }
            crate::c09::Leb::TooBig { .. } => Err(DecErr::Invalid),
            crate::c09::Leb::Eof => Err(if self.b.len() - self.p.min(self.b.len()) >= 10 { DecErr::Invalid } else { DecErr::Eof }),
        }
    }
    fn sleb(&mut self) -> Result<i64, DecErr> {
        match crate::c09::leb_model(&self.b[self.p.min(self.b.len())..], true, 64) {
            crate::c09::Leb::Fits { value, len } => {
                self.p += len;
                if len > 10 {
                    Err(DecErr::Invalid)
                } else {
                    Ok(value as i64)
                }
            }
            crate::c09::Leb::TooBig { .. } => Err(DecErr::Invalid),
            crate::c09::Leb::Eof => Err(if self.b.len() - self.p.min(self.b.len()) >= 10 { DecErr::Invalid } else { DecErr::Eof }),
        }
    }
    fn take(&mut self, n: u64) -> Result<Vec<u8>, DecErr> {
        if n > (self.b.len() - self.p) as u64 {
            return Err(DecErr::Eof);
        }
        let v = self.b[self.p..self.p + n as usize].to_vec();
        self.p += n as usize;
        Ok(v)
    }
}

/// Decode one operation at `pos`; returns the op and its encoded length.
pub fn decode_op(bytes: &[u8], pos: usize, cfg: &Cfg) -> Result<(MOp, usize), DecErr> {
    let mut r = Rd { b: bytes, p: pos, big: cfg.big };
    let opc = r.u8()?;
    let a = cfg.address_size as usize;
    let wsz = cfg.word() as usize;
    let op = match opc {
        0x03 => MOp::Addr(r.uint(a)?),
        0x06 => MOp::Deref,
        0x08 => MOp::Const(0, r.uint(1)?),
        0x09 => MOp::Const(1, r.sint(1)? as u64),
        0x0a => MOp::Const(2, r.uint(2)?),
        0x0b => MOp::Const(3, r.sint(2)? as u64),
        0x0c => MOp::Const(4, r.uint(4)?),
        0x0d => MOp::Const(5, r.sint(4)? as u64),
        0x0e => MOp::Const(6, r.uint(8)?),
        0x0f => MOp::Const(7, r.uint(8)?),
        0x10 => MOp::Const(8, r.uleb()?),
        0x11 => MOp::Const(9, r.sleb()? as u64),
        0x12 => MOp::Dup,
        0x13 => MOp::Drop,
        0x14 => MOp::Over,
        0x15 => MOp::Pick(r.u8()?),
        0x16 => MOp::Swap,
        0x17 => MOp::Rot,
        0x18 => MOp::XDeref,
        0x19 => MOp::Abs,
        0x1a => MOp::And,
        0x1b => MOp::Div,
        0x1c => MOp::Minus,
        0x1d => MOp::Mod,
        0x1e => MOp::Mul,
        0x1f => MOp::Neg,
        0x20 => MOp::Not,
        0x21 => MOp::Or,
        0x22 => MOp::Plus,
        0x23 => MOp::PlusUconst(r.uleb()?),
        0x24 => MOp::Shl,
        0x25 => MOp::Shr,
        0x26 => MOp::Shra,
        0x27 => MOp::Xor,
        0x28 => MOp::Bra(r.sint(2)? as i16),
        0x29 => MOp::Eq,
        0x2a => MOp::Ge,
        0x2b => MOp::Gt,
        0x2c => MOp::Le,
        0x2d => MOp::Lt,
        0x2e => MOp::Ne,
        0x2f => MOp::Skip(r.sint(2)? as i16),
        0x30..=0x4f => MOp::Lit(opc - 0x30),
        0x50..=0x6f => MOp::Reg(opc - 0x50),
        0x70..=0x8f => MOp::Breg(opc - 0x70, r.sleb()?),
        0x90 => MOp::Regx(r.uleb()?),
        0x91 => MOp::Fbreg(r.sleb()?),
        0x92 => {
            let reg = r.uleb()?;
            // gimli validates the register number before reading the offset
            if reg > 0xffff {
                return Err(DecErr::Invalid);
            }
            MOp::Bregx(reg, r.sleb()?)
        }
        0x93 => MOp::Piece(r.uleb()?),
        0x94 => MOp::DerefSize(r.u8()?),
        0x95 => MOp::XDerefSize(r.u8()?),
        0x96 => MOp::Nop,
        0x97 => MOp::PushObjectAddress,
        0x98 => MOp::Call2(r.uint(2)? as u16),
        0x99 => MOp::Call4(r.uint(4)? as u32),
        0x9a => MOp::CallRef(r.uint(wsz)?),
        0x9b => MOp::Tls(false),
        0x9c => MOp::CallFrameCfa,
        0x9d => {
            let s = r.uleb()?;
            MOp::BitPiece(s, r.uleb()?)
        }
        0x9e => {
            let n = r.uleb()?;
            MOp::ImplicitValue(r.take(n)?)
        }
        0x9f => MOp::StackValue,
        0xa0 | 0xf2 => {
            let v = if cfg.version == 2 { r.uint(a)? } else { r.uint(wsz)? };
            MOp::ImplicitPointer(v, r.sleb()?, opc == 0xf2)
        }
        0xa1 | 0xfb => MOp::Addrx(r.uleb()?, opc == 0xfb),
        0xa2 | 0xfc => MOp::Constx(r.uleb()?, opc == 0xfc),
        0xa3 | 0xf3 => {
            let n = r.uleb()?;
            MOp::EntryValue(r.take(n)?, opc == 0xf3)
        }
        0xa4 | 0xf4 => {
            let t = r.uleb()?;
            let n = r.u8()?;
            MOp::ConstType(t, r.take(n as u64)?, opc == 0xf4)
        }
        0xa5 | 0xf5 => {
            let reg = r.uleb()?;
            if reg > 0xffff {
                return Err(DecErr::Invalid);
            }
            MOp::RegvalType(reg, r.uleb()?, opc == 0xf5)
        }
        0xa6 | 0xf6 => {
            let s = r.u8()?;
            MOp::DerefType(s, r.uleb()?, opc == 0xf6)
        }
        0xa7 => {
            let s = r.u8()?;
            MOp::XDerefType(s, r.uleb()?)
        }
        0xa8 | 0xf7 => MOp::Convert(r.uleb()?, opc == 0xf7),
        0xa9 | 0xf9 => MOp::Reinterpret(r.uleb()?, opc == 0xf9),
        0xe0 => MOp::Tls(true),
        0xf0 => MOp::Uninit,
        0xfa => MOp::ParameterRef(r.uint(4)? as u32),
        0xfd => MOp::VariableValue(r.uint(wsz)?),
        0xed => {
            let k = r.u8()?;
            match k {
                0..=2 => {
                    let v = r.uleb()?;
                    if v > u32::MAX as u64 {
                        return Err(DecErr::Invalid);
                    }
                    MOp::Wasm(k, v as u32)
                }
                3 => MOp::Wasm(3, r.uint(4)? as u32),
                _ => return Err(DecErr::Unknown(0xed)),
            }
        }
        other => return Err(DecErr::Unknown(other)),
    };
    if let MOp::Regx(reg) = op {
        if reg > 0xffff {
            return Err(DecErr::Invalid);
        }
    }
    Ok((op, r.p - pos))
}

// ---------------------------------------------------------------------------
// Values
// ---------------------------------------------------------------------------

#[derive(Clone, Copy, Debug, PartialEq, Eq)]
pub enum Ty {
    Gen,
    I8,
    U8,
    I16,
    U16,
    I32,
    U32,
    I64,
    U64,
    F32,
    F64,
}

pub const ALL_TYS: [Ty; 11] = [Ty::Gen, Ty::I8, Ty::U8, Ty::I16, Ty::U16, Ty::I32, Ty::U32, Ty::I64, Ty::U64, Ty::F32, Ty::F64];

impl Ty {
    pub fn is_float(self) -> bool {
        matches!(self, Ty::F32 | Ty::F64)
    }
    pub fn signed(self) -> bool {
        matches!(self, Ty::I8 | Ty::I16 | Ty::I32 | Ty::I64)
    }
    /// width in bits (generic: address size)
    pub fn bits(self, addr: u8) -> u32 {
        match self {
            Ty::Gen => 8 * addr as u32,
            Ty::I8 | Ty::U8 => 8,
            Ty::I16 | Ty::U16 => 16,
            Ty::I32 | Ty::U32 | Ty::F32 => 32,
            Ty::I64 | Ty::U64 | Ty::F64 => 64,
        }
    }
    pub fn to_gimli(self) -> gimli::ValueType {
        use gimli::ValueType as V;
        match self {
            Ty::Gen => V::Generic,
            Ty::I8 => V::I8,
            Ty::U8 => V::U8,
            Ty::I16 => V::I16,
            Ty::U16 => V::U16,
            Ty::I32 => V::I32,
            Ty::U32 => V::U32,
            Ty::I64 => V::I64,
            Ty::U64 => V::U64,
            Ty::F32 => V::F32,
            Ty::F64 => V::F64,
        }
    }
}

/// A model value: type + raw bits (integers truncated to their width, zero-extended; floats as IEEE bits).
#[derive(Clone, Copy, Debug, PartialEq, Eq)]
pub struct MV {
    pub ty: Ty,
    pub bits: u64,
}

fn wmask(bits: u32) -> u64 {
    if bits >= 64 {
        u64::MAX
    } else {
        (1u64 << bits) - 1
    }
}

fn sext(v: u64, bits: u32) -> i64 {
    if bits >= 64 {
        v as i64
    } else {
        let sh = 64 - bits;
        ((v << sh) as i64) >> sh
    }
}

impl MV {
    pub fn gen(v: u64, addr: u8) -> MV {
        MV { ty: Ty::Gen, bits: v & mask(addr) }
    }
    pub fn int(ty: Ty, v: u64, addr: u8) -> MV {
        MV { ty, bits: v & wmask(ty.bits(addr)) }
    }
    pub fn to_gimli(self) -> gimli::Value {
        use gimli::Value as V;
        match self.ty {
            Ty::Gen => V::Generic(self.bits),
            Ty::I8 => V::I8(self.bits as i8),
            Ty::U8 => V::U8(self.bits as u8),
            Ty::I16 => V::I16(self.bits as i16),
            Ty::U16 => V::U16(self.bits as u16),
            Ty::I32 => V::I32(self.bits as i32),
            Ty::U32 => V::U32(self.bits as u32),
            Ty::I64 => V::I64(self.bits as i64),
            Ty::U64 => V::U64(self.bits),
            Ty::F32 => V::F32(f32::from_bits(self.bits as u32)),
            Ty::F64 => V::F64(f64::from_bits(self.bits)),
        }
    }
    pub fn from_gimli(v: gimli::Value, addr: u8) -> MV {
        use gimli::Value as V;
        match v {
            V::Generic(x) => MV::gen(x, addr),
            V::I8(x) => MV { ty: Ty::I8, bits: x as u8 as u64 },
            V::U8(x) => MV { ty: Ty::U8, bits: x as u64 },
            V::I16(x) => MV { ty: Ty::I16, bits: x as u16 as u64 },
            V::U16(x) => MV { ty: Ty::U16, bits: x as u64 },
            V::I32(x) => MV { ty: Ty::I32, bits: x as u32 as u64 },
            V::U32(x) => MV { ty: Ty::U32, bits: x as u64 },
            V::I64(x) => MV { ty: Ty::I64, bits: x as u64 },
            V::U64(x) => MV { ty: Ty::U64, bits: x },
            V::F32(x) => MV { ty: Ty::F32, bits: x.to_bits() as u64 },
            V::F64(x) => MV { ty: Ty::F64, bits: x.to_bits() },
        }
    }
    /// equality for comparing results: NaNs of the same type are equal
    pub fn same(self, o: MV) -> bool {
        if self.ty != o.ty {
            return false;
        }
        match self.ty {
            Ty::F32 => {
                let (a, b) = (f32::from_bits(self.bits as u32), f32::from_bits(o.bits as u32));
                (a.is_nan() && b.is_nan()) || self.bits == o.bits
            }
            Ty::F64 => {
                let (a, b) = (f64::from_bits(self.bits), f64::from_bits(o.bits));
                (a.is_nan() && b.is_nan()) || self.bits == o.bits
            }
            _ => self.bits == o.bits,
        }
    }
    fn f32(self) -> f32 {
        f32::from_bits(self.bits as u32)
    }
    fn f64(self) -> f64 {
        f64::from_bits(self.bits)
    }
}

// ---------------------------------------------------------------------------
// Stack machine
// ---------------------------------------------------------------------------

/// Outcome of a model step that may be left open by the standard.
#[derive(Debug, Clone, PartialEq)]
pub enum Stop {
    /// a specific error kind (gimli::Error variant name); several = any of them is acceptable
    Err(Vec<&'static str>),
    /// the standard / gimli's documentation leaves the result open: any non-panicking behaviour is accepted
    Unspecified(&'static str),
    /// the model ran out of fuel (the program loops)
    Fuel,
}

fn err(k: &'static str) -> Stop {
    Stop::Err(vec![k])
}

#[derive(Debug, Clone, PartialEq)]
pub enum MLoc {
    Empty,
    Register(u64),
    Address(u64),
    Value(MV),
    Bytes(Vec<u8>),
    ImplicitPointer(u64, i64),
}

#[derive(Debug, Clone, PartialEq)]
pub struct MPiece {
    pub size_in_bits: Option<u64>,
    pub bit_offset: Option<u64>,
    pub loc: MLoc,
}

/// What the machine asks of the outside world (canonical text, compared with gimli's request).
#[derive(Debug, Clone, PartialEq)]
pub enum Req {
    Memory { address: u64, size: u8, space: Option<u64>, base_type: u64 },
    Register { register: u64, base_type: u64 },
    FrameBase,
    Tls(u64),
    Cfa,
    AtLocation { unit_ref: bool, offset: u64 },
    EntryValue(Vec<u8>),
    ParameterRef(u64),
    RelocatedAddress(u64),
    IndexedAddress { index: u64, relocate: bool },
    BaseType(u64),
    WasmLocal(u32),
    WasmGlobal(u32),
    WasmStack(u32),
}

#[derive(Debug, Clone, PartialEq)]
pub enum Answer {
    Value(MV),
    U64(u64),
    Bytes(Vec<u8>),
    Type(Ty),
}

#[derive(Debug, Clone)]
pub struct Outcome {
    /// (request, answer) in order
    pub exchanges: Vec<(Req, Answer)>,
    pub end: Result<(Vec<MPiece>, Option<MV>), Stop>,
    /// operations decoded and executed (pieces after location ops counted separately)
    pub ops_executed: u64,
    /// number of (location op + piece) pairs that gimli handles in one iteration
    pub pairs: u64,
    pub max_stack: usize,
    pub max_calls: usize,
    pub branches_taken: u64,
    pub opcodes: Vec<u8>,
}

pub struct Env<'a> {
    pub cfg: Cfg,
    pub object_address: Option<u64>,
    pub initial_value: Option<u64>,
    /// answers in order of request
    pub answer: &'a mut dyn FnMut(&Req) -> Answer,
    pub fuel: u64,
}

fn intop(ty: Ty, addr: u8, a: u64, b: u64, f: impl Fn(u64, u64) -> u64) -> MV {
    MV::int(ty, f(a, b), addr)
}

fn binop_arith(op: &MOp, l: MV, r: MV, addr: u8) -> Result<MV, Stop> {
    // division by zero is checked before the type match by gimli; when both apply either is accepted
    let bits = l.ty.bits(addr);
    let rzero = !r.ty.is_float() && r.bits & wmask(r.ty.bits(addr)) == 0;
    if matches!(op, MOp::Div | MOp::Mod) && rzero {
        if l.ty != r.ty {
            return Err(Stop::Err(vec!["DivisionByZero", "TypeMismatch"]));
        }
        return Err(err("DivisionByZero"));
    }
    if l.ty != r.ty {
        return Err(err("TypeMismatch"));
    }
    let ty = l.ty;
    if ty.is_float() {
        if matches!(op, MOp::Mod) {
            return Err(err("IntegralTypeRequired"));
        }
        return Ok(match ty {
            Ty::F32 => {
                let (a, b) = (l.f32(), r.f32());
                let v = match op {
                    MOp::Plus => a + b,
                    MOp::Minus => a - b,
                    MOp::Mul => a * b,
                    _ => a / b,
                };
                MV { ty, bits: v.to_bits() as u64 }
            }
            _ => {
                let (a, b) = (l.f64(), r.f64());
                let v = match op {
                    MOp::Plus => a + b,
                    MOp::Minus => a - b,
                    MOp::Mul => a * b,
                    _ => a / b,
                };
                MV { ty, bits: v.to_bits() }
            }
        });
    }
    Ok(match op {
        MOp::Plus => intop(ty, addr, l.bits, r.bits, |a, b| a.wrapping_add(b)),
        MOp::Minus => intop(ty, addr, l.bits, r.bits, |a, b| a.wrapping_sub(b)),
        MOp::Mul => intop(ty, addr, l.bits, r.bits, |a, b| a.wrapping_mul(b)),
        MOp::Div => {
            // generic: signed; typed: by the type's signedness
            if ty == Ty::Gen || ty.signed() {
                let (a, b) = (sext(l.bits, bits) as i128, sext(r.bits, bits) as i128);
                // MIN / -1 wraps back to MIN (two's complement wrap-around at
                // the operand width, like every other integer operation)
                MV::int(ty, (a / b) as i64 as u64, addr)
            } else {
                MV::int(ty, l.bits / r.bits, addr)
            }
        }
        _ => {
            // Mod: generic unsigned (documented gimli policy, as GDB); typed by signedness
            if ty.signed() {
                let (a, b) = (sext(l.bits, bits) as i128, sext(r.bits, bits) as i128);
                MV::int(ty, (a % b) as i64 as u64, addr)
            } else {
                MV::int(ty, l.bits % r.bits, addr)
            }
        }
    })
}

fn bitop(op: &MOp, l: MV, r: MV, addr: u8) -> Result<MV, Stop> {
    if l.ty != r.ty {
        return Err(err("TypeMismatch"));
    }
    if l.ty.is_float() {
        return Err(err("IntegralTypeRequired"));
    }
    Ok(MV::int(
        l.ty,
        match op {
            MOp::And => l.bits & r.bits,
            MOp::Or => l.bits | r.bits,
            _ => l.bits ^ r.bits,
        },
        addr,
    ))
}

fn shift(op: &MOp, l: MV, r: MV, addr: u8) -> Result<MV, Stop> {
    if l.ty.is_float() || r.ty.is_float() {
        return Err(Stop::Err(vec!["IntegralTypeRequired", "InvalidShiftExpression"]));
    }
    let rbits = r.ty.bits(addr);
    if r.ty.signed() && sext(r.bits, rbits) < 0 {
        return Err(Stop::Unspecified("negative shift count"));
    }
    let count = r.bits;
    let bits = l.ty.bits(addr);
    match op {
        MOp::Shl => Ok(MV::int(l.ty, if count >= bits as u64 { 0 } else { l.bits << count }, addr)),
        MOp::Shr => {
            if l.ty.signed() {
                return Err(Stop::Unspecified("logical shift right of a signed typed value"));
            }
            Ok(MV::int(l.ty, if count >= bits as u64 { 0 } else { l.bits >> count }, addr))
        }
        _ => {
            if l.ty != Ty::Gen && !l.ty.signed() {
                return Err(Stop::Unspecified("arithmetic shift right of an unsigned typed value"));
            }
            let v = sext(l.bits, bits);
            let res = if count >= bits as u64 {
                if v < 0 {
                    -1i64
                } else {
                    0
                }
            } else {
                v >> count
            };
            Ok(MV::int(l.ty, res as u64, addr))
        }
    }
}

fn compare(op: &MOp, l: MV, r: MV, addr: u8) -> Result<MV, Stop> {
    if l.ty != r.ty {
        return Err(err("TypeMismatch"));
    }
    let ord: Option<std::cmp::Ordering> = match l.ty {
        Ty::F32 => l.f32().partial_cmp(&r.f32()),
        Ty::F64 => l.f64().partial_cmp(&r.f64()),
        t if t == Ty::Gen || t.signed() => Some(sext(l.bits, t.bits(addr)).cmp(&sext(r.bits, t.bits(addr)))),
        _ => Some(l.bits.cmp(&r.bits)),
    };
    // unordered (a NaN operand): IEEE 754 comparison, which is what comparing floating-point values means: only `ne` holds
    let Some(o) = ord else { return Ok(MV::gen(matches!(op, MOp::Ne) as u64, addr)) };
    use std::cmp::Ordering::*;
    let b = match op {
        MOp::Eq => o == Equal,
        MOp::Ne => o != Equal,
        MOp::Ge => o != Less,
        MOp::Gt => o == Greater,
        MOp::Le => o != Greater,
        _ => o == Less,
    };
    Ok(MV::gen(b as u64, addr))
}

fn to_int(v: MV) -> Result<u64, Stop> {
    if v.ty.is_float() {
        Err(err("IntegralTypeRequired"))
    } else {
        Ok(v.bits)
    }
}

/// integer value as a generic address-sized quantity: signed typed values sign-extend (then wrap)
fn to_addr(v: MV, addr: u8) -> Result<u64, Stop> {
    if v.ty.is_float() {
        return Err(err("IntegralTypeRequired"));
    }
    let bits = v.ty.bits(addr);
    Ok(if v.ty.signed() { sext(v.bits, bits) as u64 } else { v.bits })
}

fn convert(v: MV, to: Ty, addr: u8) -> Result<MV, Stop> {
    let from_bits = v.ty.bits(addr);
    match (v.ty.is_float(), to.is_float()) {
        (false, false) => {
            let x = if v.ty.signed() { sext(v.bits, from_bits) as u64 } else { v.bits };
            Ok(MV::int(to, x, addr))
        }
        (false, true) => {
            if v.ty == Ty::Gen && sext(v.bits, from_bits) < 0 {
                return Err(Stop::Unspecified("generic value with the top bit set converted to float"));
            }
            let bitsv = if v.ty.signed() {
                let x = sext(v.bits, from_bits);
                // value-preserving conversion of a signed integer
                return Ok(match to {
                    Ty::F32 => MV { ty: to, bits: (x as f32).to_bits() as u64 },
                    _ => MV { ty: to, bits: (x as f64).to_bits() },
                });
            } else {
                v.bits
            };
            Ok(match to {
                Ty::F32 => MV { ty: to, bits: (bitsv as f32).to_bits() as u64 },
                _ => MV { ty: to, bits: (bitsv as f64).to_bits() },
            })
        }
        (true, true) => Ok(match (v.ty, to) {
            (Ty::F32, Ty::F64) => MV { ty: to, bits: (v.f32() as f64).to_bits() },
            (Ty::F64, Ty::F32) => MV { ty: to, bits: (v.f64() as f32).to_bits() as u64 },
            _ => MV { ty: to, bits: v.bits },
        }),
        (true, false) => {
            let x = if v.ty == Ty::F32 { v.f32() as f64 } else { v.f64() };
            let tb = to.bits(addr);
            let (lo, hi) = if to.signed() { (-(2f64.powi(tb as i32 - 1)), 2f64.powi(tb as i32 - 1)) } else { (0.0, 2f64.powi(tb as i32)) };
            if x.is_nan() || x.trunc() < lo || x.trunc() >= hi || to == Ty::Gen {
                return Err(Stop::Unspecified("float to integer conversion out of range / to generic"));
            }
            let t = x.trunc();
            let iv = if t < 0.0 { (t as i64) as u64 } else { t as u64 };
            Ok(MV::int(to, iv, addr))
        }
    }
}

fn parse_typed(ty: Ty, b: &[u8], big: bool) -> Result<MV, Stop> {
    if ty == Ty::Gen {
        return Err(Stop::Unspecified("typed literal of the generic type"));
    }
    let n = (ty.bits(8) / 8) as usize;
    if b.len() < n {
        return Err(err("UnexpectedEof"));
    }
    let mut v = 0u64;
    if big {
        for x in &b[..n] {
            v = (v << 8) | *x as u64;
        }
    } else {
        for (i, x) in b[..n].iter().enumerate() {
            v |= (*x as u64) << (8 * i);
        }
    }
    Ok(MV { ty, bits: v })
}

struct Frame {
    code: Vec<u8>,
    pc: usize,
}

pub fn run(code: &[u8], env: &mut Env) -> Outcome {
    let mut out = Outcome { exchanges: Vec::new(), end: Err(Stop::Fuel), ops_executed: 0, pairs: 0, max_stack: 0, max_calls: 0, branches_taken: 0, opcodes: Vec::new() };
    let end = run_inner(code, env, &mut out);
    out.end = end;
    out
}

fn run_inner(code: &[u8], env: &mut Env, out: &mut Outcome) -> Result<(Vec<MPiece>, Option<MV>), Stop> {
    let cfg = env.cfg;
    let addr = cfg.address_size;
    let mut stack: Vec<MV> = Vec::new();
    if let Some(v) = env.initial_value {
        stack.push(MV::gen(v, addr));
    }
    let mut frames: Vec<Frame> = vec![Frame { code: code.to_vec(), pc: 0 }];
    let mut pieces: Vec<MPiece> = Vec::new();

    macro_rules! pop {
        () => {
            stack.pop().ok_or_else(|| err("NotEnoughStackItems"))?
        };
    }
    macro_rules! ask {
        ($req:expr) => {{
            let req = $req;
            let ans = (env.answer)(&req);
            out.exchanges.push((req, ans.clone()));
            ans
        }};
    }
    // return to callers while the current frame is exhausted; true if everything is finished
    fn at_end(frames: &mut Vec<Frame>) -> bool {
        while let Some(f) = frames.last() {
            if f.pc >= f.code.len() {
                if frames.len() == 1 {
                    return true;
                }
                frames.pop();
            } else {
                return false;
            }
        }
        true
    }
    fn dec_err(e: DecErr) -> Stop {
        match e {
            DecErr::Eof => err("UnexpectedEof"),
            DecErr::Unknown(_) => err("InvalidExpression"),
            DecErr::Invalid => Stop::Err(vec!["BadUnsignedLeb128", "BadSignedLeb128", "UnsupportedRegister", "UnexpectedEof"]),
        }
    }

    while !at_end(&mut frames) {
        if out.ops_executed >= env.fuel {
            return Err(Stop::Fuel);
        }
        // an attempted decode counts as an operation (the limit is checked before decoding)
        out.ops_executed += 1;
        let (op, len) = {
            let f = frames.last().unwrap();
            decode_op(&f.code, f.pc, &cfg).map_err(dec_err)?
        };
        {
            let f = frames.last_mut().unwrap();
            out.opcodes.push(f.code[f.pc]);
            f.pc += len;
        }
        let mut location: Option<MLoc> = None;
        let mut was_piece = false;
        match &op {
            MOp::Addr(a) => {
                let ans = ask!(Req::RelocatedAddress(*a));
                if let Answer::U64(v) = ans {
                    stack.push(MV::gen(v, addr));
                }
            }
            MOp::Lit(n) => stack.push(MV::gen(*n as u64, addr)),
            MOp::Const(_, v) => stack.push(MV::gen(*v, addr)),
            MOp::Dup | MOp::Over | MOp::Pick(_) => {
                let k = match &op {
                    MOp::Dup => 0usize,
                    MOp::Over => 1,
                    MOp::Pick(k) => *k as usize,
                    _ => 0,
                };
                if k >= stack.len() {
                    return Err(err("NotEnoughStackItems"));
                }
                let v = stack[stack.len() - 1 - k];
                stack.push(v);
            }
            MOp::Drop => {
                pop!();
            }
            MOp::Swap => {
                let a = pop!();
                let b = pop!();
                stack.push(a);
                stack.push(b);
            }
            MOp::Rot => {
                let top = pop!();
                let second = pop!();
                let third = pop!();
                stack.push(top);
                stack.push(third);
                stack.push(second);
            }
            MOp::Abs => {
                let v = pop!();
                let bits = v.ty.bits(addr);
                let r = if v.ty.is_float() {
                    match v.ty {
                        Ty::F32 => {
                            let x = v.f32();
                            if x.is_nan() {
                                return Err(Stop::Unspecified("abs of NaN"));
                            }
                            MV { ty: v.ty, bits: (if x < 0.0 { -x } else { x }).to_bits() as u64 }
                        }
                        _ => {
                            let x = v.f64();
                            if x.is_nan() {
                                return Err(Stop::Unspecified("abs of NaN"));
                            }
                            MV { ty: v.ty, bits: (if x < 0.0 { -x } else { x }).to_bits() }
                        }
                    }
                } else if v.ty == Ty::Gen || v.ty.signed() {
                    let x = sext(v.bits, bits);
                    if bits < 64 && x == -(1i64 << (bits - 1)) || bits == 64 && x == i64::MIN {
                        return Err(Stop::Unspecified("abs of the minimum value"));
                    }
                    MV::int(v.ty, x.unsigned_abs(), addr)
                } else {
                    v
                };
                stack.push(r);
            }
            MOp::Neg => {
                let v = pop!();
                let r = if v.ty.is_float() {
                    match v.ty {
                        Ty::F32 => MV { ty: v.ty, bits: (-v.f32()).to_bits() as u64 },
                        _ => MV { ty: v.ty, bits: (-v.f64()).to_bits() },
                    }
                } else if v.ty == Ty::Gen || v.ty.signed() {
                    MV::int(v.ty, (v.bits as i64).wrapping_neg() as u64, addr)
                } else {
                    return Err(Stop::Unspecified("neg of an unsigned typed value"));
                };
                stack.push(r);
            }
            MOp::Not => {
                let v = pop!();
                if v.ty.is_float() {
                    return Err(err("IntegralTypeRequired"));
                }
                stack.push(MV::int(v.ty, !v.bits, addr));
            }
            MOp::Plus | MOp::Minus | MOp::Mul | MOp::Div | MOp::Mod => {
                let r = pop!();
                let l = pop!();
                stack.push(binop_arith(&op, l, r, addr)?);
            }
            MOp::And | MOp::Or | MOp::Xor => {
                let r = pop!();
                let l = pop!();
                stack.push(bitop(&op, l, r, addr)?);
            }
            MOp::Shl | MOp::Shr | MOp::Shra => {
                let r = pop!();
                let l = pop!();
                stack.push(shift(&op, l, r, addr)?);
            }
            MOp::Eq | MOp::Ge | MOp::Gt | MOp::Le | MOp::Lt | MOp::Ne => {
                let r = pop!();
                let l = pop!();
                stack.push(compare(&op, l, r, addr)?);
            }
            MOp::PlusUconst(c) => {
                let l = pop!();
                let r = match l.ty {
                    Ty::F32 => MV { ty: l.ty, bits: (*c as f32).to_bits() as u64 },
                    Ty::F64 => MV { ty: l.ty, bits: (*c as f64).to_bits() },
                    t => MV::int(t, *c, addr),
                };
                stack.push(binop_arith(&MOp::Plus, l, r, addr)?);
            }
            MOp::Skip(t) | MOp::Bra(t) => {
                let take = if let MOp::Bra(_) = &op {
                    let v = pop!();
                    to_int(v)? & wmask(v.ty.bits(addr)) != 0
                } else {
                    true
                };
                if take {
                    let f = frames.last_mut().unwrap();
                    let target = f.pc as i64 + *t as i64;
                    if target < 0 || target as usize > f.code.len() {
                        return Err(err("BadBranchTarget"));
                    }
                    f.pc = target as usize;
                    out.branches_taken += 1;
                }
            }
            MOp::Deref | MOp::DerefSize(_) | MOp::XDeref | MOp::XDerefSize(_) | MOp::DerefType(..) | MOp::XDerefType(..) => {
                let (size, base, space) = match &op {
                    MOp::Deref => (addr, 0, false),
                    MOp::DerefSize(s) => (*s, 0, false),
                    MOp::XDeref => (addr, 0, true),
                    MOp::XDerefSize(s) => (*s, 0, true),
                    MOp::DerefType(s, t, _) => (*s, *t, false),
                    MOp::XDerefType(s, t) => (*s, *t, true),
                    _ => unreachable!(),
                };
                if size > addr {
                    return Err(err("InvalidDerefSize"));
                }
                let a = pop!();
                let address = to_addr(a, addr)? & if a.ty == Ty::Gen { mask(addr) } else { u64::MAX };
                let sp = if space {
                    let s = pop!();
                    Some(to_addr(s, addr)? & if s.ty == Ty::Gen { mask(addr) } else { u64::MAX })
                } else {
                    None
                };
                let ans = ask!(Req::Memory { address, size, space: sp, base_type: base });
                if let Answer::Value(v) = ans {
                    stack.push(v);
                }
            }
            MOp::Reg(r) => location = Some(MLoc::Register(*r as u64)),
            MOp::Regx(r) => location = Some(MLoc::Register(*r)),
            MOp::Breg(..) | MOp::Bregx(..) | MOp::RegvalType(..) => {
                let (reg, off, base) = match &op {
                    MOp::Breg(r, o) => (*r as u64, *o, 0),
                    MOp::Bregx(r, o) => (*r, *o, 0),
                    MOp::RegvalType(r, t, _) => (*r, 0, *t),
                    _ => unreachable!(),
                };
                let ans = ask!(Req::Register { register: reg, base_type: base });
                if let Answer::Value(v) = ans {
                    let r = if v.ty.is_float() {
                        if off < 0 {
                            return Err(Stop::Unspecified("negative register offset added to a float answer"));
                        }
                        let o = match v.ty {
                            Ty::F32 => MV { ty: v.ty, bits: (off as u64 as f32).to_bits() as u64 },
                            _ => MV { ty: v.ty, bits: (off as u64 as f64).to_bits() },
                        };
                        binop_arith(&MOp::Plus, v, o, addr)?
                    } else {
                        MV::int(v.ty, v.bits.wrapping_add(off as u64), addr)
                    };
                    stack.push(r);
                }
            }
            MOp::Fbreg(o) => {
                let ans = ask!(Req::FrameBase);
                if let Answer::U64(v) = ans {
                    stack.push(MV::gen(v.wrapping_add(*o as u64), addr));
                }
            }
            MOp::Piece(_) | MOp::BitPiece(..) => {
                let (size, off) = match &op {
                    MOp::Piece(s) => {
                        if *s > u64::MAX / 8 {
                            return Err(Stop::Unspecified("piece size in bits exceeds 64 bits"));
                        }
                        (*s * 8, None)
                    }
                    MOp::BitPiece(s, o) => (*s, Some(*o)),
                    _ => unreachable!(),
                };
                let loc = if stack.is_empty() {
                    MLoc::Empty
                } else {
                    let v = pop!();
                    MLoc::Address(to_addr(v, addr)? & if v.ty == Ty::Gen { mask(addr) } else { u64::MAX })
                };
                pieces.push(MPiece { size_in_bits: Some(size), bit_offset: off, loc });
                was_piece = true;
            }
            MOp::ImplicitValue(b) => location = Some(MLoc::Bytes(b.clone())),
            MOp::StackValue => {
                let v = pop!();
                location = Some(MLoc::Value(v));
            }
            MOp::ImplicitPointer(v, o, _) => location = Some(MLoc::ImplicitPointer(*v, *o)),
            MOp::Nop => {}
            MOp::PushObjectAddress => match env.object_address {
                Some(v) => stack.push(MV::gen(v, addr)),
                None => return Err(err("InvalidPushObjectAddress")),
            },
            MOp::Call2(_) | MOp::Call4(_) | MOp::CallRef(_) => {
                let req = match &op {
                    MOp::Call2(v) => Req::AtLocation { unit_ref: true, offset: *v as u64 },
                    MOp::Call4(v) => Req::AtLocation { unit_ref: true, offset: *v as u64 },
                    MOp::CallRef(v) => Req::AtLocation { unit_ref: false, offset: *v },
                    _ => unreachable!(),
                };
                let ans = ask!(req);
                if let Answer::Bytes(b) = ans {
                    if !b.is_empty() {
                        frames.push(Frame { code: b, pc: 0 });
                        out.max_calls = out.max_calls.max(frames.len() - 1);
                    }
                }
            }
            MOp::Tls(_) => {
                let v = pop!();
                let idx = to_addr(v, addr)? & if v.ty == Ty::Gen { mask(addr) } else { u64::MAX };
                let ans = ask!(Req::Tls(idx));
                if let Answer::U64(v) = ans {
                    stack.push(MV::gen(v, addr));
                }
            }
            MOp::CallFrameCfa => {
                let ans = ask!(Req::Cfa);
                if let Answer::U64(v) = ans {
                    stack.push(MV::gen(v, addr));
                }
            }
            MOp::EntryValue(b, _) => {
                let ans = ask!(Req::EntryValue(b.clone()));
                if let Answer::Value(v) = ans {
                    stack.push(v);
                }
            }
            MOp::ParameterRef(v) => {
                let ans = ask!(Req::ParameterRef(*v as u64));
                if let Answer::U64(v) = ans {
                    stack.push(MV::gen(v, addr));
                }
            }
            MOp::Addrx(i, _) | MOp::Constx(i, _) => {
                let relocate = matches!(&op, MOp::Addrx(..));
                let ans = ask!(Req::IndexedAddress { index: *i, relocate });
                if let Answer::U64(v) = ans {
                    stack.push(MV::gen(v, addr));
                }
            }
            MOp::ConstType(t, b, _) => {
                let ans = ask!(Req::BaseType(*t));
                if let Answer::Type(ty) = ans {
                    stack.push(parse_typed(ty, b, cfg.big)?);
                }
            }
            MOp::Convert(t, _) | MOp::Reinterpret(t, _) => {
                let ans = ask!(Req::BaseType(*t));
                if let Answer::Type(ty) = ans {
                    let v = pop!();
                    if let MOp::Convert(..) = &op {
                        stack.push(convert(v, ty, addr)?);
                    } else {
                        if v.ty.bits(addr) != ty.bits(addr) {
                            return Err(err("TypeMismatch"));
                        }
                        stack.push(MV { ty, bits: v.bits & wmask(ty.bits(addr)) });
                    }
                }
            }
            MOp::VariableValue(_) | MOp::Uninit => return Err(err("UnsupportedEvaluation")),
            MOp::Wasm(k, i) => {
                let req = match k {
                    0 => Req::WasmLocal(*i),
                    2 => Req::WasmStack(*i),
                    _ => Req::WasmGlobal(*i),
                };
                let ans = ask!(req);
                if let Answer::Value(v) = ans {
                    stack.push(v);
                }
            }
            MOp::Unknown(_) => return Err(err("InvalidExpression")),
        }
        out.max_stack = out.max_stack.max(stack.len());

        if let Some(loc) = location {
            if at_end(&mut frames) {
                if !pieces.is_empty() {
                    return Err(err("InvalidPiece"));
                }
                pieces.push(MPiece { size_in_bits: None, bit_offset: None, loc });
            } else {
                // the next operation must be a piece
                out.ops_executed += 1;
                out.pairs += 1;
                let (nop, nlen) = {
                    let f = frames.last().unwrap();
                    decode_op(&f.code, f.pc, &cfg).map_err(dec_err)?
                };
                {
                    let f = frames.last_mut().unwrap();
                    out.opcodes.push(f.code[f.pc]);
                    f.pc += nlen;
                }
                match nop {
                    MOp::Piece(s) => {
                        if s > u64::MAX / 8 {
                            return Err(Stop::Unspecified("piece size in bits exceeds 64 bits"));
                        }
                        pieces.push(MPiece { size_in_bits: Some(s * 8), bit_offset: None, loc })
                    }
                    MOp::BitPiece(s, o) => pieces.push(MPiece { size_in_bits: Some(s), bit_offset: Some(o), loc }),
                    _ => return Err(err("InvalidExpressionTerminator")),
                }
            }
        } else if !was_piece {
            // an operation after the last piece that is not itself a location: unterminated piece.
            // gimli reports InvalidPiece for plain operations; for operations that suspend for outside
            // data it completes instead ("It's not clear this is well-defined" in the source): left open.
            if at_end(&mut frames) && !pieces.is_empty() {
                let suspended = matches!(
                    &op,
                    MOp::Addr(_) | MOp::Deref | MOp::DerefSize(_) | MOp::XDeref | MOp::XDerefSize(_) | MOp::DerefType(..) | MOp::XDerefType(..)
                        | MOp::Breg(..) | MOp::Bregx(..) | MOp::RegvalType(..) | MOp::Fbreg(_) | MOp::Call2(_) | MOp::Call4(_) | MOp::CallRef(_)
                        | MOp::Tls(_) | MOp::CallFrameCfa | MOp::EntryValue(..) | MOp::ParameterRef(_) | MOp::Addrx(..) | MOp::Constx(..)
                        | MOp::ConstType(..) | MOp::Convert(..) | MOp::Reinterpret(..) | MOp::Wasm(..)
                );
                if suspended {
                    return Err(Stop::Unspecified("unterminated value after pieces, following a suspending operation"));
                }
                return Err(err("InvalidPiece"));
            }
        }
    }
    if pieces.is_empty() {
        let v = stack.pop().ok_or_else(|| err("NotEnoughStackItems"))?;
        let a = to_addr(v, addr)? & if v.ty == Ty::Gen { mask(addr) } else { u64::MAX };
        pieces.push(MPiece { size_in_bits: None, bit_offset: None, loc: MLoc::Address(a) });
        return Ok((pieces, Some(v)));
    }
    Ok((pieces, None))
}
