//! Independent assembler for .debug_info / .debug_types / .debug_abbrev and the
//! form model (value <-> bytes for every attribute form, expected decoded value,
//! expected name-based normalisation). Never calls gimli::write.
#![allow(dead_code)]

use crate::enc::{Cfg, W};

// ---- form codes --------------------------------------------------------------
pub const F_ADDR: u16 = 0x01;
pub const F_BLOCK2: u16 = 0x03;
pub const F_BLOCK4: u16 = 0x04;
pub const F_DATA2: u16 = 0x05;
pub const F_DATA4: u16 = 0x06;
pub const F_DATA8: u16 = 0x07;
pub const F_STRING: u16 = 0x08;
pub const F_BLOCK: u16 = 0x09;
pub const F_BLOCK1: u16 = 0x0a;
pub const F_DATA1: u16 = 0x0b;
pub const F_FLAG: u16 = 0x0c;
pub const F_SDATA: u16 = 0x0d;
pub const F_STRP: u16 = 0x0e;
pub const F_UDATA: u16 = 0x0f;
pub const F_REF_ADDR: u16 = 0x10;
pub const F_REF1: u16 = 0x11;
pub const F_REF2: u16 = 0x12;
pub const F_REF4: u16 = 0x13;
pub const F_REF8: u16 = 0x14;
pub const F_REF_UDATA: u16 = 0x15;
pub const F_INDIRECT: u16 = 0x16;
pub const F_SEC_OFFSET: u16 = 0x17;
pub const F_EXPRLOC: u16 = 0x18;
pub const F_FLAG_PRESENT: u16 = 0x19;
pub const F_STRX: u16 = 0x1a;
pub const F_ADDRX: u16 = 0x1b;
pub const F_REF_SUP4: u16 = 0x1c;
pub const F_STRP_SUP: u16 = 0x1d;
pub const F_DATA16: u16 = 0x1e;
pub const F_LINE_STRP: u16 = 0x1f;
pub const F_REF_SIG8: u16 = 0x20;
pub const F_IMPLICIT_CONST: u16 = 0x21;
pub const F_LOCLISTX: u16 = 0x22;
pub const F_RNGLISTX: u16 = 0x23;
pub const F_REF_SUP8: u16 = 0x24;
pub const F_STRX1: u16 = 0x25;
pub const F_STRX2: u16 = 0x26;
pub const F_STRX3: u16 = 0x27;
pub const F_STRX4: u16 = 0x28;
pub const F_ADDRX1: u16 = 0x29;
pub const F_ADDRX2: u16 = 0x2a;
pub const F_ADDRX3: u16 = 0x2b;
pub const F_ADDRX4: u16 = 0x2c;
pub const F_GNU_ADDR_INDEX: u16 = 0x1f01;
pub const F_GNU_STR_INDEX: u16 = 0x1f02;
pub const F_GNU_REF_ALT: u16 = 0x1f20;
pub const F_GNU_STRP_ALT: u16 = 0x1f21;

pub const ALL_FORMS: [u16; 47] = [
    F_ADDR, F_BLOCK2, F_BLOCK4, F_DATA2, F_DATA4, F_DATA8, F_STRING, F_BLOCK, F_BLOCK1, F_DATA1, F_FLAG, F_SDATA, F_STRP, F_UDATA, F_REF_ADDR, F_REF1, F_REF2, F_REF4, F_REF8, F_REF_UDATA, F_SEC_OFFSET, F_EXPRLOC, F_FLAG_PRESENT, F_STRX, F_ADDRX, F_REF_SUP4, F_STRP_SUP, F_DATA16, F_LINE_STRP, F_REF_SIG8, F_IMPLICIT_CONST, F_LOCLISTX, F_RNGLISTX, F_REF_SUP8, F_STRX1, F_STRX2, F_STRX3, F_STRX4, F_ADDRX1, F_ADDRX2, F_ADDRX3, F_ADDRX4,
    F_GNU_ADDR_INDEX, F_GNU_STR_INDEX, F_GNU_REF_ALT, F_GNU_STRP_ALT, F_INDIRECT,
];

/// The advertised fixed size of a form under an encoding (None = variable), from the standard.
pub fn fixed_size(form: u16, cfg: &Cfg) -> Option<usize> {
    Some(match form {
        F_ADDR => cfg.address_size as usize,
        F_IMPLICIT_CONST | F_FLAG_PRESENT => 0,
        F_DATA1 | F_FLAG | F_STRX1 | F_REF1 | F_ADDRX1 => 1,
        F_DATA2 | F_REF2 | F_ADDRX2 | F_STRX2 => 2,
        F_ADDRX3 | F_STRX3 => 3,
        F_DATA4 | F_REF_SUP4 | F_REF4 | F_STRX4 | F_ADDRX4 => 4,
        F_DATA8 | F_REF8 | F_REF_SIG8 | F_REF_SUP8 => 8,
        F_DATA16 => 16,
        F_SEC_OFFSET | F_GNU_REF_ALT | F_STRP | F_STRP_SUP | F_GNU_STRP_ALT | F_LINE_STRP => cfg.word() as usize,
        F_REF_ADDR => {
            if cfg.version == 2 {
                cfg.address_size as usize
            } else {
                cfg.word() as usize
            }
        }
        _ => return None,
    })
}

#[derive(Clone, Debug, PartialEq)]
pub enum AV {
    U(u64),
    S(i64),
    U128(u128),
    Bytes(Vec<u8>),
    Nothing,
    /// DW_FORM_indirect carrying (actual form, value)
    Indirect(u16, Box<AV>),
    /// reference to a DIE (by id), resolved at layout time
    Ref(usize),
    /// DW_AT_sibling target, resolved at layout time
    Sibling,
}

/// Encode a value under a form. `resolve` maps Ref/Sibling to numbers.
pub fn encode_form(form: u16, v: &AV, cfg: &Cfg, w: &mut W) {
    let num = match v {
        AV::U(x) => *x,
        AV::S(x) => *x as u64,
        _ => 0,
    };
    match form {
        F_ADDR => {
            w.uint(num, cfg.address_size);
        }
        F_BLOCK2 => {
            if let AV::Bytes(b) = v {
                w.u16(b.len() as u16).bytes(b);
            }
        }
        F_BLOCK4 => {
            if let AV::Bytes(b) = v {
                w.u32(b.len() as u32).bytes(b);
            }
        }
        F_BLOCK | F_EXPRLOC => {
            if let AV::Bytes(b) = v {
                w.uleb(b.len() as u64).bytes(b);
            }
        }
        F_BLOCK1 => {
            if let AV::Bytes(b) = v {
                w.u8(b.len() as u8).bytes(b);
            }
        }
        F_STRING => {
            if let AV::Bytes(b) = v {
                w.cstr(b);
            }
        }
        F_DATA1 | F_FLAG | F_STRX1 | F_REF1 | F_ADDRX1 => {
            w.u8(num as u8);
        }
        F_DATA2 | F_REF2 | F_ADDRX2 | F_STRX2 => {
            w.u16(num as u16);
        }
        F_ADDRX3 | F_STRX3 => {
            w.uint(num, 3);
        }
        F_DATA4 | F_REF_SUP4 | F_REF4 | F_STRX4 | F_ADDRX4 => {
            w.u32(num as u32);
        }
        F_DATA8 | F_REF8 | F_REF_SIG8 | F_REF_SUP8 => {
            w.u64(num);
        }
        F_DATA16 => {
            if let AV::U128(x) = v {
                w.u128(*x);
            } else {
                w.u128(num as u128);
            }
        }
        F_SDATA => {
            w.sleb(num as i64);
        }
        F_UDATA | F_REF_UDATA | F_STRX | F_ADDRX | F_LOCLISTX | F_RNGLISTX | F_GNU_ADDR_INDEX | F_GNU_STR_INDEX => {
            w.uleb(num);
        }
        F_SEC_OFFSET | F_GNU_REF_ALT | F_STRP | F_STRP_SUP | F_GNU_STRP_ALT | F_LINE_STRP => {
            w.uint(num, cfg.word());
        }
        F_REF_ADDR => {
            w.uint(num, if cfg.version == 2 { cfg.address_size } else { cfg.word() });
        }
        F_FLAG_PRESENT | F_IMPLICIT_CONST => {}
        F_INDIRECT => {
            if let AV::Indirect(f, inner) = v {
                w.uleb(*f as u64);
                encode_form(*f, inner, cfg, w);
            }
        }
        other => {
            // unknown form: nothing sensible to encode
            let _ = other;
        }
    }
}

pub const LEGACY_SECOFF_NAMES: [u16; 13] = [0x02, 0x10, 0x19, 0x2a, 0x2c, 0x40, 0x43, 0x79, 0x46, 0x48, 0x4a, 0x4d, 0x55];
pub const AT_DATA_MEMBER_LOCATION: u16 = 0x38;

fn mask_bits(v: u64, bytes: usize) -> u64 {
    if bytes >= 8 {
        v
    } else {
        v & ((1u64 << (8 * bytes)) - 1)
    }
}

/// The decoded raw value the standard assigns (canonical text "Variant(payload)"); None for unknown forms.
pub fn expected_raw(name: u16, form: u16, v: &AV, cfg: &Cfg, implicit: i64) -> Option<String> {
    let num = match v {
        AV::U(x) => *x,
        AV::S(x) => *x as u64,
        _ => 0,
    };
    let bytes = |v: &AV| -> Vec<u8> {
        if let AV::Bytes(b) = v {
            b.clone()
        } else {
            Vec::new()
        }
    };
    let legacy = LEGACY_SECOFF_NAMES.contains(&name) || (name == AT_DATA_MEMBER_LOCATION && (cfg.version == 2 || cfg.version == 3));
    Some(match form {
        F_ADDR => format!("Addr({})", mask_bits(num, cfg.address_size as usize)),
        F_BLOCK | F_BLOCK1 | F_BLOCK2 | F_BLOCK4 => format!("Block({:02x?})", bytes(v)),
        F_EXPRLOC => format!("Exprloc({:02x?})", bytes(v)),
        F_DATA1 => format!("Data1({})", num as u8),
        F_DATA2 => format!("Data2({})", num as u16),
        F_DATA4 => {
            if !cfg.format64 && legacy {
                format!("SecOffset({})", num as u32)
            } else {
                format!("Data4({})", num as u32)
            }
        }
        F_DATA8 => {
            if cfg.format64 && legacy {
                format!("SecOffset({})", num)
            } else {
                format!("Data8({})", num)
            }
        }
        F_DATA16 => format!("Data16({})", if let AV::U128(x) = v { *x } else { num as u128 }),
        F_UDATA => format!("Udata({})", num),
        F_SDATA => format!("Sdata({})", num as i64),
        F_FLAG => format!("Flag({})", num as u8 != 0),
        F_FLAG_PRESENT => "Flag(true)".to_string(),
        F_SEC_OFFSET => format!("SecOffset({})", mask_bits(num, cfg.word() as usize)),
        F_REF1 => format!("UnitRef({})", num as u8),
        F_REF2 => format!("UnitRef({})", num as u16),
        F_REF4 => format!("UnitRef({})", num as u32),
        F_REF8 | F_REF_UDATA => format!("UnitRef({})", num),
        F_REF_ADDR => format!("DebugInfoRef({})", mask_bits(num, if cfg.version == 2 { cfg.address_size as usize } else { cfg.word() as usize })),
        F_REF_SIG8 => format!("DebugTypesRef({})", num),
        F_REF_SUP4 => format!("DebugInfoRefSup({})", num as u32),
        F_REF_SUP8 => format!("DebugInfoRefSup({})", num),
        F_GNU_REF_ALT => format!("DebugInfoRefSup({})", mask_bits(num, cfg.word() as usize)),
        F_STRING => format!("String({:02x?})", bytes(v)),
        F_STRP => format!("DebugStrRef({})", mask_bits(num, cfg.word() as usize)),
        F_STRP_SUP | F_GNU_STRP_ALT => format!("DebugStrRefSup({})", mask_bits(num, cfg.word() as usize)),
        F_LINE_STRP => format!("DebugLineStrRef({})", mask_bits(num, cfg.word() as usize)),
        F_IMPLICIT_CONST => format!("Sdata({})", implicit),
        F_STRX | F_GNU_STR_INDEX => format!("DebugStrOffsetsIndex({})", num),
        F_STRX1 => format!("DebugStrOffsetsIndex({})", num as u8),
        F_STRX2 => format!("DebugStrOffsetsIndex({})", num as u16),
        F_STRX3 => format!("DebugStrOffsetsIndex({})", num & 0xff_ffff),
        F_STRX4 => format!("DebugStrOffsetsIndex({})", num as u32),
        F_ADDRX | F_GNU_ADDR_INDEX => format!("DebugAddrIndex({})", num),
        F_ADDRX1 => format!("DebugAddrIndex({})", num as u8),
        F_ADDRX2 => format!("DebugAddrIndex({})", num as u16),
        F_ADDRX3 => format!("DebugAddrIndex({})", num & 0xff_ffff),
        F_ADDRX4 => format!("DebugAddrIndex({})", num as u32),
        F_LOCLISTX => format!("DebugLocListsIndex({})", num),
        F_RNGLISTX => format!("DebugRngListsIndex({})", num),
        F_INDIRECT => {
            if let AV::Indirect(f, inner) = v {
                return expected_raw(name, *f, inner, cfg, implicit);
            }
            return None;
        }
        _ => return None,
    })
}

/// Canonical text of a decoded gimli attribute value (same vocabulary as `expected_raw`).
pub fn canon_av<R: gimli::Reader<Offset = usize>>(v: &gimli::AttributeValue<R>) -> String {
    use gimli::AttributeValue as A;
    let b = |r: &R| -> Vec<u8> { r.to_slice().map(|c| c.to_vec()).unwrap_or_default() };
    match v {
        A::Addr(x) => format!("Addr({})", x),
        A::Block(r) => format!("Block({:02x?})", b(r)),
        A::Data1(x) => format!("Data1({})", x),
        A::Data2(x) => format!("Data2({})", x),
        A::Data4(x) => format!("Data4({})", x),
        A::Data8(x) => format!("Data8({})", x),
        A::Data16(x) => format!("Data16({})", x),
        A::Sdata(x) => format!("Sdata({})", x),
        A::Udata(x) => format!("Udata({})", x),
        A::Exprloc(e) => format!("Exprloc({:02x?})", b(&e.0)),
        A::Flag(x) => format!("Flag({})", x),
        A::SecOffset(x) => format!("SecOffset({})", x),
        A::DebugAddrBase(x) => format!("DebugAddrBase({})", x.0),
        A::DebugAddrIndex(x) => format!("DebugAddrIndex({})", x.0),
        A::UnitRef(x) => format!("UnitRef({})", x.0),
        A::DebugInfoRef(x) => format!("DebugInfoRef({})", x.0),
        A::DebugInfoRefSup(x) => format!("DebugInfoRefSup({})", x.0),
        A::DebugLineRef(x) => format!("DebugLineRef({})", x.0),
        A::LocationListsRef(x) => format!("LocationListsRef({})", x.0),
        A::DebugLocListsBase(x) => format!("DebugLocListsBase({})", x.0),
        A::DebugLocListsIndex(x) => format!("DebugLocListsIndex({})", x.0),
        A::DebugMacinfoRef(x) => format!("DebugMacinfoRef({})", x.0),
        A::DebugMacroRef(x) => format!("DebugMacroRef({})", x.0),
        A::RangeListsRef(x) => format!("RangeListsRef({})", x.0),
        A::DebugRngListsBase(x) => format!("DebugRngListsBase({})", x.0),
        A::DebugRngListsIndex(x) => format!("DebugRngListsIndex({})", x.0),
        A::DebugTypesRef(x) => format!("DebugTypesRef({})", x.0),
        A::DebugStrRef(x) => format!("DebugStrRef({})", x.0),
        A::DebugStrRefSup(x) => format!("DebugStrRefSup({})", x.0),
        A::DebugStrOffsetsBase(x) => format!("DebugStrOffsetsBase({})", x.0),
        A::DebugStrOffsetsIndex(x) => format!("DebugStrOffsetsIndex({})", x.0),
        A::DebugLineStrRef(x) => format!("DebugLineStrRef({})", x.0),
        A::String(r) => format!("String({:02x?})", b(r)),
        A::Encoding(x) => format!("Encoding({})", x.0),
        A::DecimalSign(x) => format!("DecimalSign({})", x.0),
        A::Endianity(x) => format!("Endianity({})", x.0),
        A::Accessibility(x) => format!("Accessibility({})", x.0),
        A::Visibility(x) => format!("Visibility({})", x.0),
        A::Virtuality(x) => format!("Virtuality({})", x.0),
        A::Language(x) => format!("Language({})", x.0),
        A::AddressClass(x) => format!("AddressClass({})", x.0),
        A::IdentifierCase(x) => format!("IdentifierCase({})", x.0),
        A::CallingConvention(x) => format!("CallingConvention({})", x.0),
        A::Inline(x) => format!("Inline({})", x.0),
        A::Ordering(x) => format!("Ordering({})", x.0),
        A::FileIndex(x) => format!("FileIndex({})", x),
        A::DwoId(x) => format!("DwoId({})", x.0),
    }
}

/// Split canonical text into (variant, payload).
pub fn split_canon(s: &str) -> (&str, &str) {
    match s.find('(') {
        Some(i) => (&s[..i], &s[i + 1..s.len() - 1]),
        None => (s, ""),
    }
}

/// The unsigned-constant reading of a raw value, if it has one (sdata only when non-negative).
fn as_udata(raw: &str) -> Option<u64> {
    let (var, p) = split_canon(raw);
    match var {
        "Data1" | "Data2" | "Data4" | "Data8" | "Udata" => p.parse::<u64>().ok(),
        "Sdata" => p.parse::<i64>().ok().filter(|v| *v >= 0).map(|v| v as u64),
        _ => None,
    }
}

/// Expected result of name-based normalisation, for the attribute names with a documented class rule.
/// Returns None when this model pins nothing more than "payload preserved".
pub fn expected_value(name: u16, raw: &str) -> Option<String> {
    let (var, p) = split_canon(raw);
    let ud = as_udata(raw);
    let exprloc = |raw: &str| -> Option<String> {
        let (v, p) = split_canon(raw);
        if v == "Block" || v == "Exprloc" {
            Some(format!("Exprloc({})", p))
        } else {
            None
        }
    };
    let secoff = |to: &str| -> Option<String> {
        if var == "SecOffset" {
            Some(format!("{}({})", to, p))
        } else {
            None
        }
    };
    let small = |bits: u32, to: &str| -> Option<String> { ud.filter(|v| *v < (1u64 << bits)).map(|v| format!("{}({})", to, v)) };
    let same = || Some(raw.to_string());
    match name {
        // location-like: exprloc, loclist
        0x02 | 0x19 | 0x2a | 0x40 | 0x46 | 0x48 | 0x4a | 0x4d => exprloc(raw).or_else(|| secoff("LocationListsRef")).or_else(same),
        // data_member_location: constant first, then exprloc, loclist
        0x38 => ud.map(|v| format!("Udata({})", v)).or_else(|| exprloc(raw)).or_else(|| secoff("LocationListsRef")).or_else(same),
        // byte_size, bit_offset, bit_size, bit_stride, byte_stride: constant, exprloc
        0x0b | 0x0c | 0x0d | 0x2e | 0x51 => ud.map(|v| format!("Udata({})", v)).or_else(|| exprloc(raw)).or_else(same),
        // decl_column, decl_line, call_column, call_line, high_pc: constant
        0x39 | 0x3b | 0x57 | 0x59 | 0x12 => ud.map(|v| format!("Udata({})", v)).or_else(same),
        // decl_file, call_file
        0x3a | 0x58 => ud.map(|v| format!("FileIndex({})", v)).or_else(same),
        0x09 => small(8, "Ordering").or_else(same),
        0x13 => small(16, "Language").or_else(same),
        0x17 => small(8, "Visibility").or_else(same),
        0x20 => small(8, "Inline").or_else(same),
        0x32 => small(8, "Accessibility").or_else(same),
        0x33 => ud.map(|v| format!("AddressClass({})", v)).or_else(same),
        0x36 => small(8, "CallingConvention").or_else(same),
        0x3e => small(8, "Encoding").or_else(same),
        0x42 => small(8, "IdentifierCase").or_else(same),
        0x4c => small(8, "Virtuality").or_else(same),
        0x5e => small(8, "DecimalSign").or_else(same),
        0x65 => small(8, "Endianity").or_else(same),
        0x10 => secoff("DebugLineRef").or_else(same),
        0x43 => secoff("DebugMacinfoRef").or_else(same),
        0x79 => secoff("DebugMacroRef").or_else(same),
        0x55 | 0x2c => secoff("RangeListsRef").or_else(same),
        0x72 => secoff("DebugStrOffsetsBase").or_else(same),
        0x73 | 0x2133 => secoff("DebugAddrBase").or_else(same),
        0x74 | 0x2132 => secoff("DebugRngListsBase").or_else(same),
        0x8c => secoff("DebugLocListsBase").or_else(same),
        0x2131 => ud.map(|v| format!("DwoId({})", v)).or_else(same),
        // lower_bound, upper_bound, count, allocated, associated, data_location, rank, call_* exprloc names
        0x22 | 0x2f | 0x37 | 0x4e | 0x4f | 0x50 | 0x71 | 0x7e | 0x83 | 0x84 | 0x85 | 0x86 => exprloc(raw).or_else(same),
        _ => None,
    }
}

/// Generic invariant: normalisation keeps the payload and only moves between compatible classes.
pub fn normalisation_preserves(raw: &str, val: &str) -> bool {
    if raw == val {
        return true;
    }
    let (rv, rp) = split_canon(raw);
    let (vv, vp) = split_canon(val);
    match rv {
        "Block" => vv == "Exprloc" && rp == vp,
        "SecOffset" => matches!(vv, "DebugLineRef" | "LocationListsRef" | "DebugMacinfoRef" | "DebugMacroRef" | "RangeListsRef" | "DebugStrOffsetsBase" | "DebugAddrBase" | "DebugRngListsBase" | "DebugLocListsBase") && rp == vp,
        "Data1" | "Data2" | "Data4" | "Data8" | "Udata" | "Sdata" => {
            matches!(vv, "Udata" | "FileIndex" | "DwoId" | "Encoding" | "DecimalSign" | "Endianity" | "Accessibility" | "Visibility" | "Virtuality" | "Language" | "AddressClass" | "IdentifierCase" | "CallingConvention" | "Inline" | "Ordering") && as_udata(raw).map(|v| v.to_string()) == Some(vp.to_string())
        }
        _ => false,
    }
}

// ---------------------------------------------------------------------------
// Units
// ---------------------------------------------------------------------------

#[derive(Clone, Debug, PartialEq)]
pub struct Abbrev {
    pub code: u64,
    pub tag: u16,
    pub children: bool,
    /// (name, form, implicit const)
    pub attrs: Vec<(u16, u16, i64)>,
}

#[derive(Clone, Debug)]
pub struct DieSpec {
    pub id: usize,
    /// index into the unit's abbrev list
    pub abbrev: usize,
    pub vals: Vec<AV>,
    pub children: Vec<DieSpec>,
}

#[derive(Clone, Copy, Debug, PartialEq)]
pub enum UnitKind {
    Compile,
    Partial,
    Type { sig: u64, type_die: Option<usize> },
    Skeleton(u64),
    SplitCompile(u64),
    SplitType { sig: u64, type_die: Option<usize> },
}

#[derive(Clone, Debug)]
pub struct UnitSpec {
    pub cfg: Cfg,
    pub kind: UnitKind,
    pub abbrevs: Vec<Abbrev>,
    /// units with the same group share one abbreviation table (the first unit's list is emitted)
    pub abbrev_group: usize,
    pub root: DieSpec,
    /// extra null entries after the root's subtree (padding)
    pub trailing_nulls: usize,
}

#[derive(Clone, Debug)]
pub struct EntryRec {
    /// None for a null entry
    pub id: Option<usize>,
    pub offset: usize,
    pub depth: isize,
    pub tag: u16,
    pub children: bool,
    pub nattrs: usize,
    /// unit offset just after the abbreviation code
    pub attrs_at: usize,
    /// unit offsets at which each attribute value starts, and the end
    pub attr_offsets: Vec<usize>,
    pub end: usize,
    /// index (into entries) of the parent entry
    pub parent: Option<usize>,
    pub abbrev_code: u64,
}

#[derive(Clone, Debug)]
pub struct UnitRec {
    pub offset: usize,
    pub header_size: usize,
    pub unit_length: u64,
    pub total_len: usize,
    pub abbrev_offset: usize,
    pub entries: Vec<EntryRec>,
    pub type_offset: Option<usize>,
}

#[derive(Clone, Debug, Default)]
pub struct BuiltInfo {
    pub info: Vec<u8>,
    pub abbrev: Vec<u8>,
    pub units: Vec<UnitRec>,
    /// id -> (unit index, unit-relative offset)
    pub die_pos: std::collections::BTreeMap<usize, (usize, usize)>,
}

pub fn encode_abbrevs(list: &[Abbrev], w: &mut W) {
    for a in list {
        w.uleb(a.code).uleb(a.tag as u64).u8(a.children as u8);
        for (n, f, ic) in &a.attrs {
            w.uleb(*n as u64).uleb(*f as u64);
            if *f == F_IMPLICIT_CONST {
                w.sleb(*ic);
            }
        }
        w.u8(0).u8(0);
    }
    w.u8(0);
}

pub fn header_size(cfg: &Cfg, kind: &UnitKind, in_types: bool) -> usize {
    let base = if cfg.format64 { 12 } else { 4 } + 2 + cfg.word() as usize + 1 + if cfg.version >= 5 { 1 } else { 0 };
    let extra = if cfg.version >= 5 {
        match kind {
            UnitKind::Compile | UnitKind::Partial => 0,
            UnitKind::Skeleton(_) | UnitKind::SplitCompile(_) => 8,
            UnitKind::Type { .. } | UnitKind::SplitType { .. } => 8 + cfg.word() as usize,
        }
    } else if in_types {
        8 + cfg.word() as usize
    } else {
        0
    };
    base + extra
}

struct Layout<'a> {
    /// id -> (unit idx, unit-relative offset)
    pos: &'a std::collections::BTreeMap<usize, (usize, usize)>,
    unit_starts: &'a [usize],
}

fn resolve_ref(form: u16, id: usize, lay: &Layout) -> u64 {
    match lay.pos.get(&id) {
        Some((u, off)) => {
            let f = form;
            if f == F_REF_ADDR {
                (lay.unit_starts.get(*u).copied().unwrap_or(0) + off) as u64
            } else {
                *off as u64
            }
        }
        None => 0,
    }
}

/// Assemble units into a section. `in_types`: the section is .debug_types (v<=4 type units).
pub fn build_info(units: &[UnitSpec], in_types: bool) -> BuiltInfo {
    // abbreviation tables: one per group, in order of first appearance
    let mut aw = W::new(units.first().map(|u| u.cfg.big).unwrap_or(false));
    let mut group_offsets: std::collections::BTreeMap<usize, usize> = std::collections::BTreeMap::new();
    for u in units {
        if !group_offsets.contains_key(&u.abbrev_group) {
            group_offsets.insert(u.abbrev_group, aw.len());
            encode_abbrevs(&u.abbrevs, &mut aw);
        }
    }
    let mut out = BuiltInfo { abbrev: aw.buf, ..Default::default() };
    let mut pos: std::collections::BTreeMap<usize, (usize, usize)> = std::collections::BTreeMap::new();
    let mut unit_starts: Vec<usize> = vec![0; units.len()];
    // iterate layout to a fixed point (ULEB-encoded references change size with their value)
    for _round in 0..100 {
        let mut w = W::new(units.first().map(|u| u.cfg.big).unwrap_or(false));
        let mut new_pos = std::collections::BTreeMap::new();
        let mut new_starts = Vec::new();
        let mut recs = Vec::new();
        for (ui, u) in units.iter().enumerate() {
            let cfg = u.cfg;
            w.big = cfg.big;
            let ustart = w.len();
            new_starts.push(ustart);
            let tok = w.begin_length(cfg.format64);
            w.u16(cfg.version);
            let abbrev_offset = group_offsets[&u.abbrev_group];
            let type_die = match u.kind {
                UnitKind::Type { type_die, .. } | UnitKind::SplitType { type_die, .. } => type_die,
                _ => None,
            };
            let type_off_val = type_die.and_then(|id| pos.get(&id)).map(|p| p.1 as u64).unwrap_or(0);
            if cfg.version >= 5 {
                let ut = match u.kind {
                    UnitKind::Compile => 1u8,
                    UnitKind::Type { .. } => 2,
                    UnitKind::Partial => 3,
                    UnitKind::Skeleton(_) => 4,
                    UnitKind::SplitCompile(_) => 5,
                    UnitKind::SplitType { .. } => 6,
                };
                w.u8(ut).u8(cfg.address_size).word(abbrev_offset as u64, cfg.format64);
                match u.kind {
                    UnitKind::Skeleton(id) | UnitKind::SplitCompile(id) => {
                        w.u64(id);
                    }
                    UnitKind::Type { sig, .. } | UnitKind::SplitType { sig, .. } => {
                        w.u64(sig).word(type_off_val, cfg.format64);
                    }
                    _ => {}
                }
            } else {
                w.word(abbrev_offset as u64, cfg.format64).u8(cfg.address_size);
                if in_types {
                    let sig = match u.kind {
                        UnitKind::Type { sig, .. } | UnitKind::SplitType { sig, .. } => sig,
                        _ => 0,
                    };
                    w.u64(sig).word(type_off_val, cfg.format64);
                }
            }
            let hsize = w.len() - ustart;
            let mut entries: Vec<EntryRec> = Vec::new();
            // recursive emission
            fn emit(d: &DieSpec, u: &UnitSpec, ui: usize, depth: isize, parent: Option<usize>, w: &mut W, ustart: usize, entries: &mut Vec<EntryRec>, new_pos: &mut std::collections::BTreeMap<usize, (usize, usize)>, lay: &Layout, sibling_target: usize) {
                let ab = &u.abbrevs[d.abbrev];
                let off = w.len() - ustart;
                new_pos.insert(d.id, (ui, off));
                w.uleb(ab.code);
                let attrs_at = w.len() - ustart;
                let mut attr_offsets = Vec::new();
                for (i, (_n, f, _ic)) in ab.attrs.iter().enumerate() {
                    attr_offsets.push(w.len() - ustart);
                    let v = d.vals.get(i).cloned().unwrap_or(AV::U(0));
                    // a sibling pointer in DW_FORM_ref_addr is an offset from the start of the section
                    let v = resolve_av(&v, *f, lay, if *f == F_REF_ADDR { ustart + sibling_target } else { sibling_target });
                    encode_form(*f, &v, &u.cfg, w);
                }
                let end = w.len() - ustart;
                let idx = entries.len();
                entries.push(EntryRec { id: Some(d.id), offset: off, depth, tag: ab.tag, children: ab.children, nattrs: ab.attrs.len(), attrs_at, attr_offsets, end, parent, abbrev_code: ab.code });
                if ab.children {
                    for (ci, c) in d.children.iter().enumerate() {
                        // sibling target of child ci: the next child, or the terminating null (known from the previous round)
                        let st = match d.children.get(ci + 1) {
                            Some(n) => lay.pos.get(&n.id).map(|p| p.1).unwrap_or(0),
                            None => lay.pos.get(&(usize::MAX - d.id)).map(|p| p.1).unwrap_or(0),
                        };
                        emit(c, u, ui, depth + 1, Some(idx), w, ustart, entries, new_pos, lay, st);
                    }
                    let noff = w.len() - ustart;
                    // remember where this parent's terminating null is (keyed by MAX - id)
                    new_pos.insert(usize::MAX - d.id, (ui, noff));
                    w.u8(0);
                    entries.push(EntryRec { id: None, offset: noff, depth: depth + 1, tag: 0, children: false, nattrs: 0, attrs_at: noff + 1, attr_offsets: vec![], end: noff + 1, parent: Some(idx), abbrev_code: 0 });
                }
            }
            fn resolve_av(v: &AV, form: u16, lay: &Layout, sibling_target: usize) -> AV {
                match v {
                    AV::Ref(id) => AV::U(resolve_ref(form, *id, lay)),
                    AV::Sibling => AV::U(sibling_target as u64),
                    AV::Indirect(f, inner) => AV::Indirect(*f, Box::new(resolve_av(inner, *f, lay, sibling_target))),
                    other => other.clone(),
                }
            }
            let lay = Layout { pos: &pos, unit_starts: &unit_starts };
            emit(&u.root, u, ui, 0, None, &mut w, ustart, &mut entries, &mut new_pos, &lay, 0);
            for k in 0..u.trailing_nulls {
                let noff = w.len() - ustart;
                w.u8(0);
                entries.push(EntryRec { id: None, offset: noff, depth: -(k as isize), tag: 0, children: false, nattrs: 0, attrs_at: noff + 1, attr_offsets: vec![], end: noff + 1, parent: None, abbrev_code: 0 });
            }
            w.end_length(tok);
            let total = w.len() - ustart;
            recs.push(UnitRec { offset: ustart, header_size: hsize, unit_length: (total - if cfg.format64 { 12 } else { 4 }) as u64, total_len: total, abbrev_offset, entries, type_offset: type_die.map(|_| type_off_val as usize) });
        }
        let stable = new_pos == pos && new_starts == unit_starts;
        pos = new_pos;
        unit_starts = new_starts;
        out.info = w.buf;
        out.units = recs;
        if stable {
            break;
        }
    }
    out.die_pos = pos.into_iter().filter(|(k, _)| *k < usize::MAX / 2).collect();
    out
}
