//! C12 — read-to-write conversion preserves meaning or fails; never silently alters.
use crate::c06::gen_cfi_op;
use crate::cfimodel::*;
use crate::core::*;
use crate::enc::mask;
use crate::sem::{self, FdeDump};
use crate::{ensure, ensure_eq, fail};
use gimli::write as w;
use gimli::{EndianSlice, RunTimeEndian};

pub struct C12;

// ---------------------------------------------------------------------------
// (a) frame tables
// ---------------------------------------------------------------------------

pub struct FrameIn {
    pub eh: bool,
    pub big: bool,
    pub address_size: u8,
    pub aarch64: bool,
    pub cies: Vec<CieSpec>,
    pub fdes: Vec<FdeSpec>,
    pub order: Vec<Entry>,
}

fn gen_advance(ch: &mut Choices) -> CfiOp {
    let d = ch.pick(&[1u32, 2, 0x3e, 0x3f, 0x40, 0x41, 0x7f, 0x80, 0xff, 0x100, 0x101, 0xffff, 0x10000, 0x20000]);
    match d {
        0..=0x3f if ch.chance(200) => CfiOp::AdvanceLoc(d as u8),
        0..=0xff if ch.chance(200) => CfiOp::AdvanceLoc1(d as u8),
        0..=0xffff if ch.chance(200) => CfiOp::AdvanceLoc2(d as u16),
        _ => CfiOp::AdvanceLoc4(d),
    }
}

fn tame_expr(ch: &mut Choices) -> Vec<u8> {
    // small well-formed expressions
    match ch.below(6) {
        0 => vec![0x77, 0x08],                   // breg7 8
        1 => vec![0x10, 0x80, 0x01, 0x22],       // constu 128; plus
        2 => vec![0x30 + ch.below(32) as u8],    // lit
        3 => vec![0x12, 0x28, 0x01, 0x00, 0x13], // dup; bra +1; drop
        4 => vec![0x08, 0x20, 0x2f, 0x00, 0x00], // const1u 32; skip 0
        _ => vec![0x9c],                         // call_frame_cfa (not legal in CFI evaluation, but decodable)
    }
}

pub fn gen_frame(ch: &mut Choices) -> FrameIn {
    let eh = ch.chance(110);
    let big = ch.bool();
    let address_size = ch.pick(&[8u8, 4, 8, 4, 2]);
    let m = mask(address_size);
    let ncie = 1 + ch.below(2);
    let nfde = 1 + ch.below(4);
    let wild = ch.chance(40);
    let mut cies = Vec::new();
    for _ in 0..ncie {
        let version = if eh { ch.pick(&[1u8, 1, 3]) } else { ch.pick(&[1u8, 3, 4]) };
        let mut aug: Vec<u8> = Vec::new();
        if eh && ch.chance(200) {
            aug.push(b'z');
            for l in [b'R', b'L', b'P', b'S'] {
                if ch.chance(if l == b'R' { 220 } else { 70 }) {
                    aug.push(l);
                }
            }
        }
        let enc_pool: &[u8] = if address_size == 8 { &[0x00, 0x1b, 0x03, 0x0b, 0x04, 0x1c, 0x0c, 0x10, 0x02] } else if address_size == 4 { &[0x00, 0x1b, 0x03, 0x0b, 0x10, 0x02, 0x1a] } else { &[0x00, 0x02, 0x0a, 0x12] };
        let fde_enc = ch.pick(enc_pool);
        let lsda_enc = ch.pick(enc_pool);
        let pers_enc = if ch.chance(40) { ch.pick(enc_pool) | 0x80 } else { ch.pick(enc_pool) };
        let code_align = if wild { ch.pick(&[1u64, 255, 256, 1 << 20, 1 << 33]) } else { ch.pick(&[1u64, 1, 2, 4, 1, 0x3f, 0x40, 255]) };
        let data_align = if wild { ch.pick(&[-8i64, -128, -129, 127, 128, -(1 << 33)]) } else { ch.pick(&[-8i64, -4, -8, 1, 8, -128, 127, -1]) };
        let n = ch.below(5);
        let instrs: Vec<CfiOp> = (0..n)
            .map(|_| {
                let op = gen_cfi_op(ch, address_size, true);
                tame(op, ch, wild)
            })
            .collect();
        cies.push(CieSpec {
            version,
            format64: ch.chance(50),
            aug,
            address_size,
            segment_size: 0,
            code_align,
            data_align,
            ra_reg: if version == 1 { ch.below(256) as u64 } else { ch.pick(&[16u64, 0, 30, 300, 0xffff, 130, 255]) },
            lsda_enc,
            personality: Some((pers_enc, 0x4000 + ch.below(64) as u64 * 8)),
            fde_enc,
            instrs,
            pad: ch.below(4),
        });
    }
    let mut fdes = Vec::new();
    for k in 0..nfde {
        let cie = ch.below(ncie);
        let has_r = cies[cie].aug.contains(&b'R');
        let step: u64 = if address_size == 2 { 0x400 } else { 0x10_0000 };
        let initial_raw = if has_r && cies[cie].fde_enc & 0x70 == 0x10 { step * (k as u64 + 1) } else { (0x1_0000u64 + step * (k as u64 + 1)) & m };
        let range_raw = match ch.below(10) {
            0 => 0,
            1 => 1,
            2 if address_size == 8 && wild => 0x1_0000_0000 + ch.below(4) as u64,
            3 if address_size >= 4 => 0xffff_ffff,
            _ => (0x40 + ch.below(0x4_0000) as u64) & m,
        };
        // a range that wraps around the address space is not well-formed
        let range_raw = if cies[cie].fde_enc & 0x70 == 0 { range_raw.min(m - initial_raw) } else { range_raw.min(m / 2) };
        let n = ch.count(12);
        let mut instrs: Vec<CfiOp> = Vec::new();
        for _ in 0..n {
            if ch.chance(90) {
                instrs.push(gen_advance(ch));
            } else {
                let op = gen_cfi_op(ch, address_size, false);
                instrs.push(tame(op, ch, wild));
            }
        }
        fdes.push(FdeSpec { cie, format64: ch.chance(50), initial_raw, range_raw, lsda_raw: Some(0x8000 + ch.below(64) as u64 * 4), instrs, pad: ch.below(4) });
    }
    // every CIE precedes its FDEs (required in .eh_frame; harmless in .debug_frame), otherwise generated order
    let mut order: Vec<Entry> = Vec::new();
    let mut placed = vec![false; ncie];
    let mut fde_order: Vec<usize> = (0..nfde).collect();
    if ch.chance(100) {
        fde_order.reverse();
    }
    for i in fde_order {
        let ci = fdes[i].cie;
        if !placed[ci] {
            placed[ci] = true;
            order.push(Entry::Cie(ci));
        }
        order.push(Entry::Fde(i));
    }
    for (ci, p) in placed.iter().enumerate() {
        if !p && ch.bool() {
            order.push(Entry::Cie(ci));
        }
    }
    FrameIn { eh, big, address_size, aarch64: ch.chance(60), cies, fdes, order }
}

/// Keep instructions the converter documents as unsupported (set_loc, unknown opcodes) and raw random
/// expression bytes rare, so that most cases reach the comparison.
fn tame(op: CfiOp, ch: &mut Choices, wild: bool) -> CfiOp {
    match op {
        CfiOp::SetLoc(_) | CfiOp::Unknown(_) if !wild => CfiOp::Nop,
        CfiOp::NegateRaState if !wild => CfiOp::RememberState,
        CfiOp::DefCfaExpression(_) if !wild => CfiOp::DefCfaExpression(tame_expr(ch)),
        CfiOp::Expression(r, _) if !wild => CfiOp::Expression(r & 0xffff, tame_expr(ch)),
        CfiOp::ValExpression(r, _) if !wild => CfiOp::ValExpression(r & 0xffff, tame_expr(ch)),
        // operands that fit the writer's types after factoring (boundaries are kept: see small())
        CfiOp::DefCfa(r, v) if !wild => CfiOp::DefCfa(r & 0xffff, small(v)),
        CfiOp::DefCfaOffset(v) if !wild => CfiOp::DefCfaOffset(small(v)),
        CfiOp::DefCfaSf(r, v) if !wild => CfiOp::DefCfaSf(r & 0xffff, small(v as u64) as i64 * v.signum()),
        CfiOp::DefCfaOffsetSf(v) if !wild => CfiOp::DefCfaOffsetSf(small(v as u64) as i64 * v.signum()),
        CfiOp::Offset(r, v) if !wild => CfiOp::Offset(r, small(v)),
        CfiOp::OffsetExtended(r, v) if !wild => CfiOp::OffsetExtended(r & 0xffff, small(v)),
        CfiOp::OffsetExtendedSf(r, v) if !wild => CfiOp::OffsetExtendedSf(r & 0xffff, small(v as u64) as i64 * v.signum()),
        CfiOp::ValOffset(r, v) if !wild => CfiOp::ValOffset(r & 0xffff, small(v)),
        CfiOp::ValOffsetSf(r, v) if !wild => CfiOp::ValOffsetSf(r & 0xffff, small(v as u64) as i64 * v.signum()),
        CfiOp::ArgsSize(v) if !wild => CfiOp::ArgsSize(v & 0xffff_ffff),
        CfiOp::Undefined(r) if !wild => CfiOp::Undefined(r & 0xffff),
        CfiOp::SameValue(r) if !wild => CfiOp::SameValue(r & 0xffff),
        CfiOp::Register(a, b) if !wild => CfiOp::Register(a & 0xffff, b & 0xffff),
        CfiOp::RestoreExtended(r) if !wild => CfiOp::RestoreExtended(r & 0xffff),
        CfiOp::DefCfaRegister(r) if !wild => CfiOp::DefCfaRegister(r & 0xffff),
        other => other,
    }
}

fn small(v: u64) -> u64 {
    // keep the low 23 bits: times a factor of at most 255 this stays inside i32
    v & 0x7f_ffff
}

fn frame_nontrivial(f: &FrameIn) -> bool {
    // an operand outside the writer's integer widths, or an instruction the writer cannot emit verbatim
    let wide = |o: &CfiOp, da: i64| match o {
        CfiOp::DefCfa(_, v) | CfiOp::DefCfaOffset(v) => *v > i32::MAX as u64,
        CfiOp::DefCfaSf(_, v) | CfiOp::DefCfaOffsetSf(v) | CfiOp::OffsetExtendedSf(_, v) | CfiOp::ValOffsetSf(_, v) => v.checked_mul(da).map(|x| x > i32::MAX as i64 || x < i32::MIN as i64).unwrap_or(true),
        CfiOp::Offset(_, v) | CfiOp::OffsetExtended(_, v) | CfiOp::ValOffset(_, v) => (*v as i64).checked_mul(da).map(|x| x > i32::MAX as i64 || x < i32::MIN as i64).unwrap_or(true),
        CfiOp::ArgsSize(v) => *v > u32::MAX as u64,
        CfiOp::AdvanceLoc1(_) | CfiOp::AdvanceLoc2(_) | CfiOp::AdvanceLoc4(_) | CfiOp::OffsetExtended(..) | CfiOp::Nop => true,
        _ => false,
    };
    f.cies.iter().any(|c| c.code_align > 255 || c.data_align > 127 || c.data_align < -128 || c.instrs.iter().any(|o| wide(o, c.data_align))) || f.fdes.iter().any(|d| d.range_raw > u32::MAX as u64 || d.instrs.iter().any(|o| wide(o, f.cies[d.cie].data_align)))
}

pub fn dump_frame_bytes(bytes: &[u8], eh: bool, big: bool, address_size: u8, aarch64: bool) -> Result<Vec<FdeDump>, String> {
    let endian = if big { RunTimeEndian::Big } else { RunTimeEndian::Little };
    let bases = gimli::BaseAddresses::default().set_eh_frame(0);
    let vendor = if aarch64 { gimli::Vendor::AArch64 } else { gimli::Vendor::Default };
    if eh {
        let mut s = gimli::EhFrame::new(bytes, endian);
        s.set_address_size(address_size);
        s.set_vendor(vendor);
        sem::frame_dump(&s, &bases, endian)
    } else {
        let mut s = gimli::DebugFrame::new(bytes, endian);
        s.set_address_size(address_size);
        s.set_vendor(vendor);
        sem::frame_dump(&s, &bases, endian)
    }
}

pub fn convert_frame_bytes(bytes: &[u8], eh: bool, big: bool, address_size: u8, aarch64: bool) -> Result<Vec<u8>, String> {
    let endian = if big { RunTimeEndian::Big } else { RunTimeEndian::Little };
    let vendor = if aarch64 { gimli::Vendor::AArch64 } else { gimli::Vendor::Default };
    let ca = |a: u64| Some(w::Address::Constant(a));
    if eh {
        let mut s = gimli::EhFrame::new(bytes, endian);
        s.set_address_size(address_size);
        s.set_vendor(vendor);
        let table = w::FrameTable::from(&s, &ca).map_err(|e| format!("convert:{:?}", e))?;
        let mut out = w::EhFrame::from(w::EndianVec::new(endian));
        table.write_eh_frame(&mut out).map_err(|e| format!("write:{:?}", e))?;
        Ok(out.0.into_vec())
    } else {
        let mut s = gimli::DebugFrame::new(bytes, endian);
        s.set_address_size(address_size);
        s.set_vendor(vendor);
        let table = w::FrameTable::from(&s, &ca).map_err(|e| format!("convert:{:?}", e))?;
        let mut out = w::DebugFrame::from(w::EndianVec::new(endian));
        table.write_debug_frame(&mut out).map_err(|e| format!("write:{:?}", e))?;
        Ok(out.0.into_vec())
    }
}

fn sorted(mut v: Vec<FdeDump>) -> Vec<FdeDump> {
    v.sort_by(|a, b| (a.initial, a.len, format!("{:?}", a)).cmp(&(b.initial, b.len, format!("{:?}", b))));
    v
}

fn first_diff(a: &[FdeDump], b: &[FdeDump]) -> String {
    if a.len() != b.len() {
        return format!("{} FDEs before, {} after", a.len(), b.len());
    }
    for (x, y) in a.iter().zip(b.iter()) {
        if x != y {
            if let (Ok(rx), Ok(ry)) = (&x.rows, &y.rows) {
                for (p, q) in rx.iter().zip(ry.iter()) {
                    if p != q {
                        return format!("FDE at {:#x}: row before {:?} after {:?}", x.initial, p, q);
                    }
                }
                if rx.len() != ry.len() {
                    return format!("FDE at {:#x}: {} rows before, {} after; first extra {:?}", x.initial, rx.len(), ry.len(), rx.get(ry.len()).or(ry.get(rx.len())));
                }
            }
            let strip = |f: &FdeDump| format!("initial {:#x} len {:#x} lsda {:?} personality {:?} signal {} ra {} rows {:?}", f.initial, f.len, f.lsda, f.personality, f.signal, f.ra, f.rows.as_ref().map(|r| r.len()));
            return format!("before {{{}}} after {{{}}}", strip(x), strip(y));
        }
    }
    String::new()
}

pub fn check_frame(ch: &mut Choices, cx: &mut Ctx) -> R {
    let f = gen_frame(ch);
    cx.label(if f.eh { "frame:.eh_frame" } else { "frame:.debug_frame" });
    let built = build_frame(f.eh, f.big, &f.cies, &f.fdes, &f.order, f.eh);
    cx.sample_with(|| format!("{} {} addr{} cies {:?} fdes {:?}", if f.eh { ".eh_frame" } else { ".debug_frame" }, if f.big { "BE" } else { "LE" }, f.address_size, f.cies.iter().map(|c| (c.version, String::from_utf8_lossy(&c.aug).to_string(), c.code_align, c.data_align, c.fde_enc, &c.instrs)).collect::<Vec<_>>(), f.fdes.iter().map(|d| (d.cie, d.initial_raw, d.range_raw, &d.instrs)).collect::<Vec<_>>()));
    let d0 = match dump_frame_bytes(&built.bytes, f.eh, f.big, f.address_size, f.aarch64) {
        Ok(d) => d,
        Err(e) => {
            // not accepted by the reader: the conversion must fail too (or at least not panic)
            cx.label("frame: input rejected by the reader");
            let _ = convert_frame_bytes(&built.bytes, f.eh, f.big, f.address_size, f.aarch64);
            let _ = e;
            return Ok(());
        }
    };
    let out = match convert_frame_bytes(&built.bytes, f.eh, f.big, f.address_size, f.aarch64) {
        Ok(o) => o,
        Err(e) => {
            cx.label(if e.starts_with("convert") { "frame: conversion refused" } else { "frame: write refused" });
            return Ok(());
        }
    };
    if d0.iter().any(|d| d.rows.is_err()) {
        cx.label("frame: an input FDE's program stops with an error");
    }
    let d1 = match dump_frame_bytes(&out, f.eh, f.big, f.address_size, f.aarch64) {
        Ok(d) => d,
        Err(e) => fail!("c12/frame/output-unreadable", "{}", e),
    };
    cx.say(|| format!("before: {:?}\nafter: {:?}", d0, d1));
    // FDEs whose own program fails in the input are outside "accepted by the reader": compare the others
    let keep = |v: &Vec<FdeDump>, bad: &Vec<(u64, u64)>| -> Vec<FdeDump> { v.iter().filter(|d| !bad.contains(&(d.initial, d.len))).cloned().collect() };
    let bad: Vec<(u64, u64)> = d0.iter().filter(|d| d.rows.is_err()).map(|d| (d.initial, d.len)).collect();
    let a = sorted(keep(&d0, &bad));
    let b = sorted(keep(&d1, &bad));
    ensure!(a == b, "c12/frame/meaning-changed", "{}", first_diff(&a, &b));
    ensure_eq!(d0.len(), d1.len(), "c12/frame/fde-count");
    if !a.is_empty() && frame_nontrivial(&f) {
        cx.nt();
    }
    cx.label("frame: converted and compared");
    // idempotence
    match convert_frame_bytes(&out, f.eh, f.big, f.address_size, f.aarch64) {
        Ok(out2) => {
            let d2 = match dump_frame_bytes(&out2, f.eh, f.big, f.address_size, f.aarch64) {
                Ok(d) => d,
                Err(e) => fail!("c12/frame/second-output-unreadable", "{}", e),
            };
            let c = sorted(keep(&d2, &bad));
            ensure!(b == c, "c12/frame/second-conversion-differs", "{}", first_diff(&b, &c));
            ensure_eq!(out2, out, "c12/frame/second-conversion-bytes", "converting the output again does not reproduce it");
        }
        Err(e) => fail!("c12/frame/second-conversion-fails", "{}", e),
    }
    let _ = EndianSlice::new(&[], RunTimeEndian::Little);
    Ok(())
}


// ---------------------------------------------------------------------------
// (b) line programs (through Dwarf::from on a one-entry unit, or the stepwise API)
// ---------------------------------------------------------------------------

use crate::c04::{encode_program, gen_header, gen_program};
use crate::enc::W;
use crate::linemodel::*;

pub struct LineIn {
    pub h: LineHeader,
    pub big: bool,
    pub ops: Vec<LOp>,
    pub lead_pad: usize,
    pub strs: Vec<u8>,
    pub line_strs: Vec<u8>,
}

const STR_POOL: [&[u8]; 6] = [b"alpha.c", b"beta", b"src/gamma.rs", b"", b"delta-dir", b"e"];

fn pool_section() -> (Vec<u8>, Vec<u64>) {
    let mut v = vec![0x5au8, 0x5a, 0]; // a leading string so that offset 0 is not special
    let mut offs = Vec::new();
    for s in STR_POOL {
        offs.push(v.len() as u64);
        v.extend_from_slice(s);
        v.push(0);
    }
    (v, offs)
}

pub fn gen_line(ch: &mut Choices) -> LineIn {
    let mut h = gen_header(ch);
    let wild = ch.chance(30);
    let (pool, offs) = pool_section();
    // paths must resolve: map section offsets into the pools; indexed forms are exercised in the unit part
    let fix = |p: &PathVal, ch: &mut Choices| -> PathVal {
        match p {
            PathVal::Inline(b) => PathVal::Inline(b.clone()),
            PathVal::LineStrp(_) => PathVal::LineStrp(offs[ch.below(offs.len())]),
            PathVal::Strp(_) => PathVal::Strp(offs[ch.below(offs.len())]),
            PathVal::Strx(..) | PathVal::StrpSup(..) => PathVal::LineStrp(offs[ch.below(offs.len())]),
        }
    };
    let fixform = |f: u16| -> u16 {
        match f {
            0x1a | 0x25 | 0x26 | 0x27 | 0x28 | 0x1f02 | 0x1d | 0x1f21 => FORM_LINE_STRP,
            f => f,
        }
    };
    for d in h.dirs.iter_mut() {
        *d = fix(d, ch);
    }
    for f in h.dir_format.iter_mut() {
        if f.0 == 1 {
            f.1 = fixform(f.1);
        }
    }
    for f in h.file_format.iter_mut() {
        if f.0 == 1 || f.0 == 0x2001 {
            f.1 = fixform(f.1);
        }
    }
    let ndirs = h.dirs.len() as u64 + if h.version <= 4 { 1 } else { 0 };
    for f in h.files.iter_mut() {
        f.path = fix(&f.path, ch);
        if let Some(s) = &f.source {
            f.source = Some(fix(s, ch));
        }
        if !wild {
            f.dir %= ndirs.max(1);
        }
    }
    if !wild {
        h.min_inst_len = ch.pick(&[1u8, 1, 2, 4]);
        if h.line_base > 0 {
            h.line_base = -h.line_base;
        }
        if h.line_base as i16 + h.line_range as i16 <= 0 {
            h.line_base = -((h.line_range / 2) as i8).max(0);
        }
        while h.files.len() < 2 {
            let i = h.files.len() as u8;
            h.files.push(FileSpec { path: PathVal::Inline(vec![b'f', b'0' + i]), dir: 0, mtime: 0, size: 0, md5: [i; 16], source: None });
            if h.version >= 5 {
                let form = h.file_format.iter().find(|f| f.0 == 1).map(|f| f.1).unwrap_or(FORM_STRING);
                if form != FORM_STRING {
                    h.files.last_mut().unwrap().path = PathVal::LineStrp(offs[0]);
                }
                if h.file_format.iter().any(|f| f.0 == 0x2001) {
                    let sform = h.file_format.iter().find(|f| f.0 == 0x2001).map(|f| f.1).unwrap_or(FORM_STRING);
                    h.files.last_mut().unwrap().source = Some(if sform == FORM_STRING { PathVal::Inline(b"src".to_vec()) } else { PathVal::LineStrp(offs[1]) });
                }
            }
        }
        if h.version >= 4 {
            h.max_ops = ch.pick(&[1u8, 1, 1, 2, 4]);
        }
        if h.opcode_base < 10 && ch.chance(200) {
            h.opcode_base = 13;
            h.std_lengths = STD_LENGTHS.to_vec();
        }
    }
    let mut ops = gen_program(ch, &h);
    let m = mask(h.address_size);
    let nfiles = h.files.len() as u64;
    for op in ops.iter_mut() {
        match op {
            LOp::SetFile(f) if !wild => {
                *f = if h.version <= 4 { 1 + *f % nfiles.max(1) } else { *f % nfiles.max(1) };
            }
            LOp::SetAddress(a, _) if ch.chance(24) => *a = m, // tombstone
            LOp::DefineFile(_, d, _, _, _) if !wild => *d %= ndirs.max(1),
            _ => {}
        }
    }
    LineIn { h, big: ch.bool(), ops, lead_pad: if ch.chance(60) { 1 + ch.below(9) } else { 0 }, strs: pool.clone(), line_strs: pool }
}

pub struct LineSections {
    pub info: Vec<u8>,
    pub abbrev: Vec<u8>,
    pub line: Vec<u8>,
    pub strs: Vec<u8>,
    pub line_strs: Vec<u8>,
}

/// A unit consisting of a root entry with name, comp_dir and stmt_list.
pub fn mini_unit(version: u16, format64: bool, address_size: u8, big: bool, stmt_list: u64) -> (Vec<u8>, Vec<u8>) {
    let mut a = W::new(big);
    let stmt_form: u64 = if version >= 4 { 0x17 } else if format64 { 0x07 } else { 0x06 };
    a.uleb(1).uleb(0x11).u8(0);
    a.uleb(0x03).uleb(0x08).uleb(0x1b).uleb(0x08).uleb(0x10).uleb(stmt_form).uleb(0).uleb(0);
    a.u8(0);
    let mut w = W::new(big);
    let tok = w.begin_length(format64);
    w.u16(version);
    if version >= 5 {
        w.u8(1).u8(address_size).word(0, format64);
    } else {
        w.word(0, format64).u8(address_size);
    }
    w.uleb(1).cstr(b"unit-name.c").cstr(b"/comp/dir").word(stmt_list, format64);
    w.end_length(tok);
    (w.buf, a.buf)
}

pub fn build_line_sections(c: &LineIn) -> LineSections {
    let prog = encode_program(&c.ops, &c.h, c.big);
    let (bytes, _) = build_line(&c.h, c.big, &prog);
    let mut line = vec![0xeeu8; c.lead_pad];
    line.extend_from_slice(&bytes);
    let (info, abbrev) = mini_unit(c.h.version.max(2), c.h.format64, c.h.address_size, c.big, c.lead_pad as u64);
    LineSections { info, abbrev, line, strs: c.strs.clone(), line_strs: c.line_strs.clone() }
}

type Map = std::collections::BTreeMap<&'static str, Vec<u8>>;

pub fn load_map<'a>(map: &'a Map, big: bool) -> gimli::Dwarf<EndianSlice<'a, RunTimeEndian>> {
    let endian = if big { RunTimeEndian::Big } else { RunTimeEndian::Little };
    let empty: &[u8] = &[];
    gimli::Dwarf::load(|id| -> Result<_, gimli::Error> { Ok(EndianSlice::new(map.get(id.name()).map(|v| &v[..]).unwrap_or(empty), endian)) }).unwrap()
}

/// Convert with Dwarf::from (or the stepwise API) and write all sections.
thread_local! {
    /// with the stepwise API: read the line program row by row (`read_row`) instead of sequence by sequence
    pub static LINE_ROW_BY_ROW: std::cell::Cell<bool> = const { std::cell::Cell::new(false) };
    /// with the stepwise API: write every unit as soon as it is converted (`ConvertUnit::write`)
    pub static INCREMENTAL_WRITE: std::cell::Cell<bool> = const { std::cell::Cell::new(false) };
}

pub fn convert_dwarf(map: &Map, big: bool, stepwise: bool) -> Result<Map, String> {
    let endian = if big { RunTimeEndian::Big } else { RunTimeEndian::Little };
    let dwarf = load_map(map, big);
    let ca = |a: u64| Some(w::Address::Constant(a));
    let mut sections = w::Sections::new(w::EndianVec::new(endian));
    let incremental = stepwise && INCREMENTAL_WRITE.with(|c| c.get());
    let mut out = if stepwise {
        let mut wd = w::Dwarf::new();
        {
            let mut conv = wd.convert(&dwarf).map_err(|e| format!("convert:{:?}", e))?;
            while let Some((mut unit, root)) = conv.read_unit().map_err(|e| format!("convert:{:?}", e))? {
                if let Some(mut lp) = unit.read_line_program(None, None).map_err(|e| format!("convert:{:?}", e))? {
                    if LINE_ROW_BY_ROW.with(|c| c.get()) {
                        // row-wise conversion, as in the documentation of ConvertLineProgram
                        while let Some(row) = lp.read_row().map_err(|e| format!("convert:{:?}", e))? {
                            match row {
                                w::ConvertLineRow::SetAddress(a) => lp.set_address(w::Address::Constant(a)),
                                w::ConvertLineRow::Row(r) => lp.generate_row(r),
                                w::ConvertLineRow::EndSequence(len) => lp.end_sequence(len),
                            }
                        }
                    }
                    // sequence-wise conversion
                    while let Some(seq) = lp.read_sequence().map_err(|e| format!("convert:{:?}", e))? {
                        if let Some(start) = seq.start {
                            lp.set_address(w::Address::Constant(start));
                        }
                        for row in seq.rows {
                            lp.generate_row(row);
                        }
                        if let w::ConvertLineSequenceEnd::Length(len) = seq.end {
                            lp.end_sequence(len);
                        }
                    }
                    if lp.in_sequence() {
                        return Err("convert:MissingLineEndSequence".into());
                    }
                    let (program, files) = lp.program();
                    unit.set_line_program(program, files);
                }
                let root_id = unit.unit.root();
                for attr in &root.attrs {
                    let v = unit.convert_attribute_value(root.read_unit, attr, &ca).map_err(|e| format!("convert:{:?}", e))?;
                    unit.unit.get_mut(root_id).set(attr.name(), v);
                }
                let mut entry = root;
                while let Some(id) = unit.read_entry(&mut entry).map_err(|e| format!("convert:{:?}", e))? {
                    if id.is_none() {
                        continue;
                    }
                    let id = unit.add_entry(id, &entry);
                    for attr in &entry.attrs {
                        if attr.name() == gimli::DW_AT_GNU_locviews {
                            continue;
                        }
                        let v = unit.convert_attribute_value(entry.read_unit, attr, &ca).map_err(|e| format!("convert:{:?}", e))?;
                        unit.unit.get_mut(id).set(attr.name(), v);
                    }
                }
                if incremental {
                    // each unit written as soon as it is converted (Dwarf::write below finishes the job)
                    unit.write(&mut sections).map_err(|e| format!("write:{:?}", e))?;
                }
            }
        }
        wd
    } else {
        w::Dwarf::from(&dwarf, &ca).map_err(|e| format!("convert:{:?}", e))?
    };
    out.write(&mut sections).map_err(|e| format!("write:{:?}", e))?;
    let mut m = Map::new();
    sections
        .for_each(|id, data| -> Result<(), w::Error> {
            m.insert(id.name(), data.slice().to_vec());
            Ok(())
        })
        .unwrap();
    Ok(m)
}

/// `before `ADDR.OP end_sequence` after `ADDR.OP' end_sequence``: same address, different op_index.
fn only_op_index_differs(detail: &str) -> bool {
    let parts: Vec<&str> = detail.split('`').collect();
    if parts.len() < 4 {
        return false;
    }
    let addr = |s: &str| s.split('.').next().unwrap_or("").to_string();
    parts[1].ends_with("end_sequence") && parts[3].ends_with("end_sequence") && addr(parts[1]) == addr(parts[3])
}

/// A DW_LNE_set_address after the first row of a sequence.
fn has_mid_sequence_set_address(c: &LineIn) -> bool {
    let mut seen_row = false;
    for op in &c.ops {
        match op {
            LOp::Special(_) | LOp::Copy => seen_row = true,
            LOp::EndSequence(_) => seen_row = false,
            LOp::SetAddress(..) if seen_row => return true,
            _ => {}
        }
    }
    false
}

/// The file tables agree once timestamp/size/md5/source are ignored (and duplicates removed).
fn same_files_ignoring_info(a: &sem::DwarfDump, b: &sem::DwarfDump) -> bool {
    let strip = |d: &sem::DwarfDump| -> Vec<Vec<String>> {
        d.units
            .iter()
            .map(|u| {
                let mut v: Vec<String> = u.line.as_ref().map(|l| l.files.iter().map(|f| strip_info(f)).collect()).unwrap_or_default();
                v.sort();
                v.dedup();
                v
            })
            .collect()
    };
    strip(a) == strip(b)
}

fn strip_info(f: &str) -> String {
    let mut out = String::new();
    let mut skip = false;
    for tok in f.split(' ') {
        if tok.starts_with("t=") || tok.starts_with("size=") || tok.starts_with("source=") {
            continue;
        }
        if tok.starts_with("md5=") {
            skip = true;
        }
        if skip {
            if tok.ends_with(']') {
                skip = false;
            }
            continue;
        }
        out.push_str(tok);
        out.push(' ');
    }
    out
}

fn rows_equal_ignoring_file_info(a: &sem::DwarfDump, b: &sem::DwarfDump) -> bool {
    a.units.len() == b.units.len()
        && a.units.iter().zip(b.units.iter()).all(|(x, y)| match (&x.line, &y.line) {
            (Some(l), Some(m)) => l.rows.len() == m.rows.len() && l.rows.iter().zip(m.rows.iter()).all(|(r, s)| strip_info(r) == strip_info(s)),
            (None, None) => true,
            _ => false,
        })
}

/// The (resolved) input file table has two entries with the same directory and name but different information.
fn has_same_name_entries_with_different_info(d: &sem::DwarfDump) -> bool {
    d.units.iter().any(|u| match &u.line {
        Some(l) => {
            let mut v: Vec<String> = l.files.iter().map(|f| strip_info(f)).collect();
            let n = v.len();
            v.sort();
            v.dedup();
            v.len() < n
        }
        None => false,
    })
}

/// Labels are &'static str: error names form a small closed set, so leaking one copy of each is fine.
pub fn intern(s: &str) -> &'static str {
    use std::sync::Mutex;
    static TABLE: Mutex<Vec<&'static str>> = Mutex::new(Vec::new());
    let mut t = TABLE.lock().unwrap();
    if let Some(x) = t.iter().find(|x| **x == s) {
        return x;
    }
    let l: &'static str = Box::leak(s.to_string().into_boxed_str());
    t.push(l);
    l
}

fn line_nontrivial(c: &LineIn) -> bool {
    let mut seen_row = false;
    for op in &c.ops {
        match op {
            LOp::Special(_) | LOp::Copy => seen_row = true,
            LOp::EndSequence(_) => seen_row = false,
            LOp::SetAddress(..) if seen_row => return true,
            LOp::FixedAdvancePc(_) | LOp::DefineFile(..) | LOp::ConstAddPc => return true,
            _ => {}
        }
    }
    c.h.min_inst_len > 1 || c.h.max_ops > 1
}

pub fn check_line(ch: &mut Choices, cx: &mut Ctx) -> R {
    let c = gen_line(ch);
    let stepwise = ch.chance(100);
    let row_by_row = stepwise && ch.bool();
    LINE_ROW_BY_ROW.with(|c| c.set(row_by_row));
    INCREMENTAL_WRITE.with(|c| c.set(false));
    if row_by_row {
        cx.label("line: stepwise API, row by row");
    }
    cx.label(if stepwise { "line: stepwise API (read_sequence)" } else { "line: Dwarf::from" });
    let secs = build_line_sections(&c);
    cx.sample_with(|| format!("line program v{} {} addr{} {} min_inst {} max_ops {} base {} range {} opcode_base {} dirs {:?} files {:?} ops {:?}", c.h.version, if c.h.format64 { "dwarf64" } else { "dwarf32" }, c.h.address_size, if c.big { "BE" } else { "LE" }, c.h.min_inst_len, c.h.max_ops, c.h.line_base, c.h.line_range, c.h.opcode_base, c.h.dirs, c.h.files.iter().map(|f| (&f.path, f.dir)).collect::<Vec<_>>(), c.ops));
    let mut map = Map::new();
    map.insert(".debug_info", secs.info);
    map.insert(".debug_abbrev", secs.abbrev);
    map.insert(".debug_line", secs.line);
    map.insert(".debug_str", secs.strs);
    map.insert(".debug_line_str", secs.line_strs);
    let d0 = {
        let dwarf = load_map(&map, c.big);
        sem::dwarf_dump(&dwarf)
    };
    let accepted = match &d0 {
        Ok(d) => d.units.iter().all(|u| matches!(&u.line, Some(l) if l.end.is_ok())),
        Err(_) => false,
    };
    let out = match convert_dwarf(&map, c.big, stepwise) {
        Ok(o) => o,
        Err(e) => {
            cx.label(if !accepted { "line: input rejected by the reader" } else if e.starts_with("convert") { "line: conversion refused" } else { "line: write refused" });
            if accepted {
                cx.label(intern(&format!("line refused: {}", e)));
            }
            return Ok(());
        }
    };
    if !accepted {
        cx.label("line: input rejected by the reader");
        return Ok(());
    }
    let d0 = d0.unwrap();
    let d1 = {
        let dwarf = load_map(&out, c.big);
        match sem::dwarf_dump(&dwarf) {
            Ok(d) => d,
            Err(e) => fail!("c12/line/output-unreadable", "{}", e),
        }
    };
    cx.say(|| format!("before: {:?}\nafter: {:?}", d0, d1));
    if let Some(diff) = sem::diff_dumps(&d0, &d1) {
        // a recorded finding gets its own signature (see known_findings.json); everything else is reported as is
        if (diff.0 == "line-files" || diff.0 == "line-row") && same_files_ignoring_info(&d0, &d1) && has_same_name_entries_with_different_info(&d0) && rows_equal_ignoring_file_info(&d0, &d1) {
            cx.report(Failure { sig: "c12/line/known/duplicate-file-entries-with-different-info".into(), detail: diff.1.clone() })?;
            cx.label("line: duplicate file entries with different info collapsed (recorded finding)");
            return Ok(());
        }
        fail!(format!("c12/line/{}", diff.0), "{}", diff.1);
    }
    cx.label("line: converted and compared");
    if line_nontrivial(&c) && d0.units[0].line.as_ref().map(|l| l.rows.len() >= 2).unwrap_or(false) {
        cx.nt();
    }
    // converting the output again reproduces it
    match convert_dwarf(&out, c.big, false) {
        Ok(out2) => {
            let dwarf = load_map(&out2, c.big);
            let d2 = match sem::dwarf_dump(&dwarf) {
                Ok(d) => d,
                Err(e) => fail!("c12/line/second-output-unreadable", "{}", e),
            };
            if let Some(diff) = sem::diff_dumps(&d1, &d2) {
                fail!(format!("c12/line/second-conversion/{}", diff.0), "{}", diff.1);
            }
            // "reproduces it" is judged by meaning: list and string tables may be laid out in a different order
            // (base types are moved first, so lists are added in a different order the second time)
            cx.label(if out.iter().all(|(k, v)| out2.get(k) == Some(v)) { "line: second conversion byte-identical" } else { "line: second conversion equal by meaning only" });
        }
        Err(e) => fail!("c12/line/second-conversion-fails", "{}", e),
    }
    Ok(())
}


// ---------------------------------------------------------------------------
// (c) entry forests with every readable form
// ---------------------------------------------------------------------------

use crate::fullasm::{assemble, gen_fdwarf, FDwarf, FVal, GenOpts, StrForm};

fn forest_nontrivial(d: &FDwarf) -> bool {
    d.units.iter().any(|u| {
        u.dies.iter().any(|die| {
            die.attrs.iter().any(|(_, v)| match v {
                FVal::Str(_, StrForm::Strx(_)) | FVal::Addr(_, Some(_)) | FVal::Ranges(_, true) | FVal::Locs(_, true) => true,
                FVal::Ref(_, f) => *f != crate::dieasm::F_REF4,
                FVal::Block(f, _) => *f != crate::dieasm::F_BLOCK,
                _ => false,
            })
        })
    })
}

pub fn describe_fdwarf(d: &FDwarf) -> String {
    format!(
        "{} {}",
        if d.big { "BE" } else { "LE" },
        d.units.iter().map(|u| format!("[v{} {} addr{} low_pc {:x?} line {} ranges {:x?} locs {:x?} dies {:?}]", u.version, if u.format64 { "dwarf64" } else { "dwarf32" }, u.address_size, u.low_pc, u.line.is_some(), u.ranges, u.locs, u.dies.iter().map(|x| (x.parent, x.tag, x.sibling, &x.attrs)).collect::<Vec<_>>())).collect::<Vec<_>>().join(" ")
    )
}

pub fn check_forest(ch: &mut Choices, cx: &mut Ctx) -> R {
    let d = gen_fdwarf(ch, &GenOpts { max_units: 3, max_dies: 10, lines: true, bad_refs: 0, split: false });
    let stepwise = ch.chance(80);
    LINE_ROW_BY_ROW.with(|c| c.set(stepwise && ch.bool()));
    let incremental = stepwise && ch.bool();
    INCREMENTAL_WRITE.with(|c| c.set(incremental));
    if incremental {
        cx.label("forest: units written as they are converted");
    }
    cx.label(if stepwise { "forest: stepwise API" } else { "forest: Dwarf::from" });
    cx.sample_with(|| describe_fdwarf(&d));
    let asm = assemble(&d);
    let map: Map = asm.sections.clone();
    let d0 = {
        let dwarf = load_map(&map, d.big);
        match sem::dwarf_dump(&dwarf) {
            Ok(x) => x,
            Err(e) => fail!("c12/harness/assembled-input-unreadable", "{}", e),
        }
    };
    // the assembler's output must say what the model says (guards the oracle against assembler slips)
    ensure_eq!(d0.units.len(), d.units.len(), "c12/harness/unit-count");
    for (ui, (x, u)) in d0.units.iter().zip(d.units.iter()).enumerate() {
        ensure_eq!(x.entries.len(), u.dies.len(), "c12/harness/entry-count", "unit {}", ui);
        for e in &x.entries {
            for (n, m) in &e.attrs {
                ensure!(!m.contains("dangling") && !m.contains("unresolvable") && !m.contains("undecodable") && !m.contains("error("), "c12/harness/input-meaning", "unit {} attribute {:#x} reads as {}", ui, n, m);
            }
        }
    }
    let out = match convert_dwarf(&map, d.big, stepwise) {
        Ok(o) => o,
        Err(e) => {
            // writing each unit as soon as it is converted is a way of doing the same conversion: it may not refuse what
            // the conversion written in one go accepts
            if incremental {
                INCREMENTAL_WRITE.with(|c| c.set(false));
                if convert_dwarf(&map, d.big, stepwise).is_ok() {
                    fail!("c12/forest/unit-at-a-time-write-refused", "{} - although the same conversion written in one go succeeds", e);
                }
            }
            cx.label(if e.starts_with("convert") { "forest: conversion refused" } else { "forest: write refused" });
            cx.label(intern(&format!("forest refused: {}", e)));
            return Ok(());
        }
    };
    let d1 = {
        let dwarf = load_map(&out, d.big);
        match sem::dwarf_dump(&dwarf) {
            Ok(x) => x,
            Err(e) => fail!("c12/forest/output-unreadable", "{}", e),
        }
    };
    cx.say(|| format!("before: {:?}\nafter: {:?}", d0, d1));
    if let Some(diff) = sem::diff_dumps(&d0, &d1) {
        fail!(format!("c12/forest/{}", diff.0), "{}", diff.1);
    }
    cx.label("forest: converted and compared");
    if forest_nontrivial(&d) {
        cx.nt();
    }
    match convert_dwarf(&out, d.big, false) {
        Ok(out2) => {
            let dwarf = load_map(&out2, d.big);
            let d2 = match sem::dwarf_dump(&dwarf) {
                Ok(x) => x,
                Err(e) => fail!("c12/forest/second-output-unreadable", "{}", e),
            };
            if let Some(diff) = sem::diff_dumps(&d1, &d2) {
                fail!(format!("c12/forest/second-conversion/{}", diff.0), "{}", diff.1);
            }
            // "reproduces it" is judged by meaning: list and string tables may be laid out in a different order
            // (base types are moved first, so lists are added in a different order the second time)
            cx.label(if out.iter().all(|(k, v)| out2.get(k) == Some(v)) { "forest: second conversion byte-identical" } else { "forest: second conversion equal by meaning only" });
        }
        Err(e) => fail!("c12/forest/second-conversion-fails", "{}", e),
    }
    Ok(())
}

impl Prop for C12 {
    fn id(&self) -> &'static str {
        "C12"
    }
    fn rule(&self) -> &'static str {
        "(a) frame tables: assembler-built .debug_frame/.eh_frame sections (1-2 CIEs, 1-4 FDEs, CIE versions 1/3/4, both formats, address sizes 2/4/8, both byte orders, augmentations z/R/L/P/S with absolute/pc-relative/sized pointer encodings, code alignment factors 1..2^33 incl. 0x3f/0x40/255/256, data alignment factors incl. -128/-129/127/128/-2^33, every call-frame instruction incl. advances of every width around 0x3f/0x40/0xff/0x100/0xffff/0x10000, 64-bit offsets, expressions with branches) through FrameTable::from; (b) line programs in a one-entry unit (versions 2-5, both formats, address sizes 1-8, generated headers incl. opcode_base 1..255, non-standard standard-opcode lengths, min_inst_len 1/2/4, max_ops 1/2/4, v5 directory/file formats with inline and .debug_str/.debug_line_str forms, md5/size/time/source fields; programs of 1-6 sequences using every standard and extended opcode incl. set_address before/after rows, fixed_advance_pc, const_add_pc, define_file, unknown opcodes, tombstone addresses) through Dwarf::from or the stepwise read_line_program/read_sequence API; (c) forests of 1-3 units x 1-10 entries (versions 2-5, both formats, address sizes 4/8, compile and partial units) with every readable form: strings inline/strp/line_strp/strx1-4, addresses plain and addrx1-4/GNU_addr_index, references ref1/2/4/8/udata/ref_addr in-unit, forward, backward and cross-unit, data1-16/sdata/udata/implicit_const, block1/2/4, flags, range and location lists by offset and by index in both section generations incl. base-address/startx/offset-pair kinds, expressions with branches, calls, typed operations, implicit pointers and nested entry values referring to entries, file indices, sibling pointers, base types anywhere; (d) split compilations (DWARF 4 GNU extension and DWARF 5): a skeleton unit in the main file (dwo id, address-table base, DW_AT_GNU_ranges_base, low_pc) and the full unit in a .dwo section set (indexed strings through .debug_str_offsets.dwo, indexed addresses through the main file's .debug_addr, range lists in the main file's .debug_ranges behind the ranges base or in .debug_rnglists.dwo with implicit bases, location lists in the GNU .debug_loc.dwo format or .debug_loclists.dwo) converted with ConvertUnit::convert_split into one ordinary unit. Oracle: semantic dump through gimli::read of input vs convert+write output must be equal (unwind rows; line rows with resolved file names and the file table; forest with attribute meanings: strings by content, references by identity marker, lists by resolved ranges, expressions by decoded operations with branch targets as operation indices), or conversion/writing returns an error; converting the output again gives the same dump (byte-identical for frames). Non-trivial = compared case containing something the writer re-encodes (operand outside its integer widths, re-encoded CFI instruction, set_address after a row / fixed_advance_pc / define_file / VLIW, indexed or non-default forms); distinct by choice string. Round-8 additions: writing unit by unit (ConvertUnit::write) may not refuse what the same conversion written in one go accepts; inputs with DW_OP_constx and DW_OP_GNU_variable_value."
    }
    fn assumptions(&self) -> Vec<&'static str> {
        vec![
            "gimli's frame reader is the observer on both sides (it is compared against the independent call-frame model in C05/C06)",
            "FDEs whose own instruction stream makes the reader stop with an error are outside the quantifier; they must not crash the converter",
            "pointers are interpreted with the section at address 0 and no text/data/function bases, as FrameTable::from does",
        ]
    }
    fn max_len(&self) -> usize {
        700
    }
    fn cases(&self, tier: Tier, dev: bool) -> u64 {
        match (tier, dev) {
            (Tier::Quick, false) => 60_000,
            (Tier::Quick, true) => 10_000,
            (Tier::Thorough, false) => 3_000_000,
            (Tier::Thorough, true) => 300_000,
        }
    }
    fn run_case(&self, ch: &mut Choices, cx: &mut Ctx) -> R {
        match ch.below(8) {
            0 | 1 => check_frame(ch, cx),
            2 | 3 => check_line(ch, cx),
            4 => crate::split::check_split_conversion(ch, cx),
            _ => check_forest(ch, cx),
        }
    }
}
