//! Coverage-guided search over the *choice strings* of a property's structured generator:
//! the input bytes are the decisions the generator draws, so libFuzzer's mutations are
//! structural mutations and every oracle of the property runs inside the target.
//! Property chosen by FUZZ_PROP (default C01). Known findings are tolerated exactly as in
//! the proptest drivers; anything else panics, which libFuzzer reports as a crash and
//! saves; `./check <ID> --replay-raw <artifact>` replays it.
#![no_main]
use libfuzzer_sys::fuzz_target;
use std::sync::OnceLock;
use vpcheck::core::{Choices, Ctx, Known, Prop};

static PROP: OnceLock<&'static dyn Prop> = OnceLock::new();
static KNOWN: OnceLock<Vec<Known>> = OnceLock::new();

fuzz_target!(|data: &[u8]| {
    let prop = PROP.get_or_init(|| {
        let id = std::env::var("FUZZ_PROP").unwrap_or_else(|_| "C01".into());
        vpcheck::find(&id).expect("unknown property in FUZZ_PROP")
    });
    let data = &data[..data.len().min(prop.max_len())];
    let mut ch = Choices::new(data);
    let known = KNOWN.get_or_init(|| vpcheck::driver::load_known(prop.id()));
    let mut cx = Ctx::new(known, false, cfg!(debug_assertions));
    if let Err(f) = prop.run_case(&mut ch, &mut cx) {
        // a failure that carries the signature of a recorded known finding is tolerated, as in the proptest drivers
        if let Err(f) = cx.report(f) {
            panic!("VIOLATION property={} signature={} detail={}", prop.id(), f.sig, f.detail);
        }
    }
});
