//! Coverage-guided search over the *choice strings* of a property's structured generator:
//! the input bytes are the decisions the generator draws, so libFuzzer's mutations are
//! structural mutations and every oracle of the property runs inside the target.
//! Property chosen by FUZZ_PROP (default C01). Known findings are tolerated exactly as in
//! the proptest drivers; anything else panics, which libFuzzer reports as a crash and
//! saves; `./check <ID> --replay-raw <artifact>` replays it.
#![no_main]
use libfuzzer_sys::fuzz_target;
use std::sync::OnceLock;
use vpcheck::core::{Choices, Ctx, Known, Prop};

static PROP: OnceLock<&'static dyn Prop> = OnceLock::new();
static KNOWN: OnceLock<Vec<Known>> = OnceLock::new();

fuzz_target!(|data: &[u8]| {
    let prop = PROP.get_or_init(|| {
        // libfuzzer-sys installs a panic hook that aborts the process on *any* panic, also on the ones the checks
        // provoke on purpose and catch (a documented "panics if out of bounds"; panics turned into failures): the
        // harness's own hook (it records the message for the failure signature) replaces it. A failure still ends in
        // an abort below, which is what libFuzzer records as a crash.
        vpcheck::core::install_panic_hook();
        let id = std::env::var("FUZZ_PROP").unwrap_or_else(|_| "C01".into());
        vpcheck::find(&id).expect("unknown property in FUZZ_PROP")
    });
    let data = &data[..data.len().min(prop.max_len())];
    let mut ch = Choices::new(data);
    let known = KNOWN.get_or_init(|| vpcheck::driver::load_known(prop.id()));
    let mut cx = Ctx::new(known, false, cfg!(debug_assertions));
    let r = match std::panic::catch_unwind(std::panic::AssertUnwindSafe(|| prop.run_case(&mut ch, &mut cx))) {
        Ok(r) => r,
        Err(_) => Err(vpcheck::core::Failure { sig: "case/panic".into(), detail: "a panic escaped the check".into() }),
    };
    if let Err(f) = r {
        // a failure that carries the signature of a recorded known finding is tolerated, as in the proptest drivers
        if let Err(f) = cx.report(f) {
            eprintln!("VIOLATION property={} signature={} detail={}", prop.id(), f.sig, f.detail);
            std::process::abort();
        }
    }
});
