//! Byte-level target for C01: the input is decoded into a set of named sections
//! ([selector byte][u16 length][bytes]...) and driven through every reading entry point
//! with the robustness oracles (no panic, bounded iterators, documented stop-after-error).
#![no_main]
use libfuzzer_sys::fuzz_target;
use std::collections::BTreeMap;

const NAMES: [&str; 23] = [
    ".debug_info", ".debug_abbrev", ".debug_str", ".debug_line", ".debug_line_str", ".debug_ranges", ".debug_rnglists", ".debug_loc", ".debug_loclists", ".debug_addr", ".debug_str_offsets", ".debug_aranges", ".debug_types", ".debug_macinfo", ".debug_macro", ".debug_pubnames", ".debug_pubtypes", ".debug_names", ".debug_cu_index", ".debug_tu_index", ".debug_frame", ".eh_frame", ".eh_frame_hdr",
];

fuzz_target!(|data: &[u8]| {
    if data.is_empty() {
        return;
    }
    let big = data[0] & 1 != 0;
    let address_size = [8u8, 4, 2, 1][(data[0] >> 1 & 3) as usize];
    let mut map: BTreeMap<&'static str, Vec<u8>> = BTreeMap::new();
    let mut p = 1;
    while p + 3 <= data.len() {
        let name = NAMES[data[p] as usize % NAMES.len()];
        let len = u16::from_le_bytes([data[p + 1], data[p + 2]]) as usize;
        p += 3;
        let end = (p + len).min(data.len());
        map.entry(name).or_default().extend_from_slice(&data[p..end]);
        p = end;
    }
    match vpcheck::c01::exercise_all(&map, big, address_size, true, 200_000) {
        Ok(_) => {}
        Err(f) => {
            // the recorded finding about ArangeEntryIter's doc comment is tolerated here as in the check
            if f.sig.contains("-after-error/aranges-entries") {
                return;
            }
            panic!("VIOLATION property=C01 signature={} detail={}", f.sig, f.detail);
        }
    }
});
