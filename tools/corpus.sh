#!/bin/bash
# corpus.sh <outdir>: compile the sources in corpus-src/ with gcc and clang over a matrix of DWARF options and dump
# every debug section of each result into <outdir>/<name>/<section name> (one file per section), plus
# llvm-dwarfdump's text rendering of the line tables and address ranges for the differential checks.
# Everything here uses tools installed in the image; a configuration that does not build is skipped.
set -u
HERE="$(cd "$(dirname "$0")/.." && pwd)"
OUT="${1:-$HERE/work/corpus}"
SRC="$HERE/corpus-src"
rm -rf "$OUT"; mkdir -p "$OUT/.build"
B="$OUT/.build"
dump() { # dump <object> <name>
  local obj="$1" name="$2" d="$OUT/$2"
  mkdir -p "$d"
  for sec in $(readelf -S -W "$obj" 2>/dev/null | grep -oE '\.(debug_[a-z_]+(\.dwo)?|eh_frame(_hdr)?)' | sort -u); do
    objcopy --dump-section "$sec=$d/$sec" "$obj" 2>/dev/null
    # objcopy decompresses nothing: compressed sections are not produced by the options used here
  done
  llvm-dwarfdump --debug-line "$obj" > "$d/dwarfdump-line.txt" 2>/dev/null
  llvm-dwarfdump --debug-aranges "$obj" > "$d/dwarfdump-aranges.txt" 2>/dev/null
  # remove empty dumps
  find "$d" -type f -size 0 -delete
  [ -n "$(ls -A "$d" 2>/dev/null)" ] || rmdir "$d"
}
n=0
for src in "$SRC"/*.c "$SRC"/*.cpp; do
  base=$(basename "$src"); stem="${base%.*}"
  case "$src" in *.cpp) GCC=g++; CLANG=clang++;; *) GCC=gcc; CLANG=clang;; esac
  for cc in "$GCC" "$CLANG"; do
    for v in 2 3 4 5; do
      for o in O0 O2; do
        name="$stem-$cc-dwarf$v-$o"
        if $cc -g -gdwarf-$v -$o "$src" -o "$B/$name" 2>/dev/null; then dump "$B/$name" "$name"; n=$((n+1)); fi
      done
    done
    # extras: 64-bit DWARF, type units, macros, pubnames / names, relocatable object
    for extra in "-gdwarf-5 -gdwarf64:d64v5" "-gdwarf-4 -gdwarf64:d64v4" "-gdwarf-4 -fdebug-types-section:types4" "-gdwarf-5 -fdebug-types-section:types5" "-gdwarf-5 -g3:macro5" "-gdwarf-4 -g3:macro4" "-gdwarf-4 -gpubnames:pub4" "-gdwarf-5 -gpubnames:pub5" "-gdwarf-5 -O1 -fno-omit-frame-pointer:fp5"; do
      flags="${extra%%:*}"; tag="${extra##*:}"
      name="$stem-$cc-$tag"
      if $cc -g $flags "$src" -o "$B/$name" 2>/dev/null; then dump "$B/$name" "$name"; n=$((n+1)); fi
    done
  done
done
# split DWARF and packages (for C17)
for cc in gcc clang; do
  for v in 4 5; do
    p="$B/split-$cc-$v"; mkdir -p "$p"
    ok=1
    ( cd "$p" && $cc -g -gdwarf-$v -gsplit-dwarf -c "$SRC/a.c" -o a.o 2>/dev/null && ${cc/gcc/g++} -x c++ -g -gdwarf-$v -gsplit-dwarf -c "$SRC/b.cpp" -o b.o 2>/dev/null ) || ok=0
    [ "$cc" = clang ] && ( cd "$p" && clang++ -g -gdwarf-$v -gsplit-dwarf -c "$SRC/b.cpp" -o b.o 2>/dev/null )
    if [ $ok = 1 ] && [ -f "$p/a.dwo" ] && [ -f "$p/b.dwo" ]; then
      ( cd "$p" && (llvm-dwp a.dwo b.dwo -o pkg.dwp 2>/dev/null || dwp -o pkg.dwp a.dwo b.dwo 2>/dev/null) )
      if [ -f "$p/pkg.dwp" ]; then
        dump "$p/a.o" "split-$cc-$v/skeleton-a"; dump "$p/b.o" "split-$cc-$v/skeleton-b"
        dump "$p/a.dwo" "split-$cc-$v/dwo-a"; dump "$p/b.dwo" "split-$cc-$v/dwo-b"
        dump "$p/pkg.dwp" "split-$cc-$v/package"
        n=$((n+1))
      fi
    fi
  done
done
rm -rf "$B"
echo "corpus: $n configurations in $OUT"
