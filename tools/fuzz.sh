#!/bin/bash
# Coverage-guided campaigns (libFuzzer through cargo-fuzz, nightly toolchain, offline).
#   tools/fuzz.sh sections <runs> [seed]        byte-level C01 target, corpus of well-formed section sets
#   tools/fuzz.sh choices <ID> <runs> [seed]    choice-string target for one property (all its oracles)
# A campaign ends after <runs> executions or after VERIF_FUZZ_MAX_SECS (default 900) seconds, whichever comes first
# (properties whose cases are heavy run a few hundred executions per second); ending on the time cap is not a failure.
# Exit 0: no crash in the explored inputs; exit 1 + VIOLATION line: a crash artifact was saved; exit 2: build trouble.
set -u
HERE="$(cd "$(dirname "$0")/.." && pwd)"
cd "$HERE"
export CARGO_TARGET_DIR="$HERE/target/fuzz"
export CARGO_NET_OFFLINE=true
export VERIF_ROOT="$HERE"
target="$1"; shift
work="$HERE/work/fuzz"
mkdir -p "$work"
./check --build >/dev/null 2>&1 || { echo "INCONCLUSIVE: harness build failed"; exit 2; }
cargo +nightly fuzz build --fuzz-dir "$HERE/fuzz" "$target" >"$work/build.log" 2>&1 || { echo "INCONCLUSIVE: fuzz build failed (see $work/build.log)"; exit 2; }
if [ "$target" = sections ]; then
  runs="${1:-200000}"; seed="${2:-1}"; prop=C01
  corpus="$work/corpus-sections"; rm -rf "$corpus"; mkdir -p "$corpus"
  "$HERE/target/release/vpcheck" --corpus "$corpus" 64 "$HERE/work/corpus"
  maxlen=131072
else
  prop="$1"; runs="${2:-200000}"; seed="${3:-1}"
  export FUZZ_PROP="$prop"
  corpus="$work/corpus-choices-$prop"; rm -rf "$corpus"; mkdir -p "$corpus"
  # replay files of the property are choice strings: use them as the starting corpus
  python3 - "$prop" "$corpus" "$HERE" <<'PY'
import json,sys,glob,os
prop,out,here=sys.argv[1],sys.argv[2],sys.argv[3]
for i,f in enumerate(sorted(glob.glob(f"{here}/replays/{prop}/*.json"))):
    d=json.load(open(f))
    if d.get("mode")=="choices":
        open(os.path.join(out,f"replay-{i:03}"),"wb").write(bytes.fromhex(d["data"]))
open(os.path.join(out,"empty"),"wb").write(b"\0")
PY
  maxlen=1024
fi
art="$work/artifacts-$target-$prop/"; mkdir -p "$art"
[ "$seed" = 0 ] && seed=1
cargo +nightly fuzz run --fuzz-dir "$HERE/fuzz" "$target" "$corpus" -- -runs="$runs" -max_total_time="${VERIF_FUZZ_MAX_SECS:-900}" -seed="$seed" -max_len="$maxlen" -len_control=0 -timeout=60 -rss_limit_mb=8192 -artifact_prefix="$art" -print_final_stats=1 >"$work/run-$target-$prop.log" 2>&1
rc=$?
grep -E "stat::number_of_executed_units|stat::new_units_added|cov:" "$work/run-$target-$prop.log" | tail -3
if [ $rc -ne 0 ]; then
  f=$(ls -t "$art" 2>/dev/null | head -1)
  if [ -n "$f" ]; then
    if grep -q "deadly signal\|panicked\|ERROR: libFuzzer: \(deadly\|fuzz target\)" "$work/run-$target-$prop.log"; then
      echo "VIOLATION property=$prop replay=$art$f"
      exit 1
    fi
    echo "INCONCLUSIVE: libFuzzer stopped ($(grep -m1 'ERROR: libFuzzer' "$work/run-$target-$prop.log"))"
    exit 2
  fi
  echo "INCONCLUSIVE: fuzz run failed without an artifact (see $work/run-$target-$prop.log)"
  exit 2
fi
exit 0
