#!/bin/bash
# seedtest.sh <seeded-dir-name> [property-id ...]  — apply a seeded defect to /repo, run the quick check(s), undo.
# Prints one line per check: CAUGHT / MISSED / INCONCLUSIVE.
set -u
NAME="$1"; shift
DIR="/verif/seeded/$NAME"
PROPS="$@"
[ -z "$PROPS" ] && PROPS="$(python3 -c "import json;print(json.load(open('$DIR/meta.json'))['property'])")"
# SEED_REPO=<scratch worktree of /repo>: apply the change there and point the check at it (VERIF_REPO) instead of
# touching /repo (used while a background run is reading /repo)
REPO="${SEED_REPO:-/repo}"
[ "$REPO" != "/repo" ] && export VERIF_REPO="$REPO"
cd "$REPO" || exit 2
if ! git diff --quiet; then echo "$REPO has uncommitted changes"; exit 2; fi
PATCH="$DIR/patch.diff"; [ -f "$DIR/patch.rebased.diff" ] && PATCH="$DIR/patch.rebased.diff"
git apply "$PATCH" || { echo "$NAME: patch does not apply to current /repo"; exit 2; }
for P in $PROPS; do
  # keep the evidence of the unchanged tree: the run against the seeded change must not replace it
  cp -f /verif/evidence/$P.json /tmp/seedtest-evidence-$P.json 2>/dev/null
  out=$(cd /verif && ./check $P quick 2>&1); rc=$?
  [ -f /tmp/seedtest-evidence-$P.json ] && mv -f /tmp/seedtest-evidence-$P.json /verif/evidence/$P.json
  v=$(echo "$out" | grep -c "^VIOLATION")
  sig=$(echo "$out" | grep "^violation signature" | head -2 | tr '\n' ' ')
  if [ $rc -eq 1 ] && [ $v -ge 1 ]; then echo "$NAME $P CAUGHT $sig"; elif [ $rc -eq 0 ]; then echo "$NAME $P MISSED"; else echo "$NAME $P INCONCLUSIVE rc=$rc $(echo "$out" | tail -3 | tr '\n' ' ')"; fi
done
git -C "$REPO" checkout -- .
