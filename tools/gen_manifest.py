#!/usr/bin/env python3
"""Regenerates /verif/MANIFEST.json from the table below (keeps it schema-valid at all times)."""
import json, os, sys
HERE = os.path.dirname(os.path.dirname(os.path.abspath(__file__)))
props = [json.loads(l) for l in open(os.path.join(HERE, 'properties.jsonl'))]

# id -> (technique, level text, level note, design ref)
CLAIMED = {
 'C09': ("exhaustive enumeration + proptest random search against a bit-group LEB128 model and an independent encoder (write->read round trip)",
         "Exploration. Every byte string of length <=3 and the 10th-byte accept/reject frontier are enumerated completely through all LEB128 readers, all 2^16 values and all 256 size arguments are enumerated for the 16-bit/sized codecs; 64/128-bit values and longer strings are searched with boundary-biased generated cases in both build profiles. Absence of a counterexample outside the enumerated sub-domains is not established.",
         "Trusts the harness's own LEB128 bit-group model and byte encoder (harness/src/c09.rs, enc.rs); usize is 64-bit; over-long padded encodings may be refused by the reader but never mis-valued.",
         "DESIGN.md §4 C09"),
 'C10': ("model-based stateful testing: generated Reader operation histories against a cursor model, six-way differential across reader kinds, pointer-arithmetic view containment",
         "Exploration. Generated histories (up to 40 operations over a pool of live readers, with clones, splits, truncations, drops in any order) are run on six reader kinds in lock-step against a cursor model; after every step every live reader must view exactly the model's byte range of the original buffer. Both build profiles; the thorough tier adds a libFuzzer/ASan campaign over the same interpreter.",
         "Trusts the cursor model in harness/src/c10.rs and C09's LEB128 model; offset_from / range* are only called inside their documented preconditions; position after a failed read is resynchronised (may only shrink; all kinds must agree).",
         "DESIGN.md §4 C10"),
 'C06': ("exhaustive enumeration of short CFI programs + proptest random search against an independent call-frame state machine with exact storage-capacity accounting",
         "Exploration. All instruction sequences of length <=4 over a 14-symbol alphabet (in the CIE, in the FDE, split) are enumerated completely; longer generated CIE+FDE programs over every DW_CFA opcode, boundary operands, all alignment-factor classes, address sizes and both frame sections are compared row by row (address range, CFA, every register rule, args size) and error by error with the model, on the default heap storage and on five custom storages whose limits are reached exactly and exceeded by one. Both build profiles.",
         "Trusts the call-frame state machine and CFI assembler in harness/src/cfimodel.rs (written from DWARF 5 section 6.4 and gimli's documented storage representation). Products beyond 2^64 in advance_loc are left open.",
         "DESIGN.md §4 C06, appendix A.2"),
 'C07': ("exhaustive enumeration of short expression programs and of all opcode bytes + proptest random programs with a scripted answer source, against an independent decoder and DWARF stack machine",
         "Exploration. Every opcode byte is decoded under every configuration class; every program of length <=3 (<=4 thorough) over a 51-symbol alphabet is evaluated for each address size; generated longer programs with branches, pieces, nested calls, typed operations and every Requires* suspension are evaluated in lock-step with the model: every request, the pieces, value_result and the error kind must agree, iteration limits are probed around the exact operation count, and fixed-capacity storages are judged by refinement. Both build profiles.",
         "Trusts the decoder and stack machine in harness/src/exprvm.rs (DESIGN appendix A.1). Results the standard leaves open are excluded (listed in the evidence assumptions).",
         "DESIGN.md §4 C07, appendix A.1"),
 'C04': ("proptest random search over generated headers x programs, per-header sweep of all 256 opcode bytes, arbitrary-bytes mode; oracle = independent line-number state machine, plus metamorphic sequences()/resume_from vs straight run",
         "Exploration. Generated headers span every header parameter range and every v2-4 / v5 table layout; generated well-formed multi-sequence programs over the full opcode set are compared row by row on every accessor with the state machine, the directory/file tables with their version-dependent index bases are compared entry by entry, sequences() bounds and resume_from (reverse then forward order) must reproduce the straight run. For sampled headers all 256 opcode bytes are swept; for arbitrary bytes the monotonicity / address-size clauses are checked. Both build profiles.",
         "Trusts the state machine, decoder and header assembler in harness/src/linemodel.rs (DESIGN appendix A.3). Comparison stops where behaviour is gimli policy rather than DWARF semantics (tombstoned set_address, advances beyond 2^64).",
         "DESIGN.md §4 C04, appendix A.3"),
 'C13': ("exhaustive grid of (line advance x operation advance) per LineEncoding + proptest random programs; round trip write->read with the generated rows as oracle, read back both by gimli's reader and by the harness's independent line-number state machine",
         "Exploration. For 26 LineEncoding tuples every (line advance, operation advance) pair in the stated ranges is written and read back (complete in the thorough tier, strided in the quick tier); generated multi-sequence programs vary every row field, sequence start mode, string form, optional file field and header version/format/address size. The emitted program is decoded twice: by gimli's reader and by the harness's own decoder/state machine, both must reproduce the generated rows; file entries must resolve through the emitted string sections. Both build profiles.",
         "Documented writer preconditions are respected by construction; line numbers < 2^63; mid-sequence set_address only re-states the current address. Trusts harness/src/linemodel.rs for the independent read-back.",
         "DESIGN.md §4 C13"),
 'C03': ("exhaustive enumeration form x configuration x payload x neighbour context + proptest random attribute lists; oracle = independent form model (encoder, expected decoded value, fixed-size table, normalisation class table); metamorphic skip-vs-read at every prefix split",
         "Exploration. Every form (47 incl. GNU forms and DW_FORM_indirect) is enumerated under all 64 encoding configurations with boundary payloads and fixed/variable neighbours; generated abbreviation lists of 1-12 attributes over 60 attribute names exercise skip accumulation across fixed/variable boundaries, nested indirect forms, implicit constants, the legacy data4/data8 section-offset rule and unknown forms. Checked: decoded raw value, advance = encoded length per attribute, skip_attributes after reading i attributes for every i, advertised fixed size, value() payload preservation and class. Both build profiles.",
         "Trusts the form model and .debug_info/.debug_abbrev assembler in harness/src/dieasm.rs (written from DWARF 5 section 7.5). Attribute values are generated inside their form's width.",
         "DESIGN.md §4 C03"),
 'C02': ("proptest random forests built by an independent .debug_info/.debug_types/.debug_abbrev assembler whose layout record is the oracle; six-way agreement of navigation APIs (raw, DFS cursor, next_entry, next_sibling, tree iterator, positioned reads)",
         "Exploration. Generated multi-unit forests over every unit type and header layout, tree shape class, abbreviation-code scheme (incl. codes >= 2^63 and codes aliasing modulo 2^32) and DW_AT_sibling placement are assembled independently; every navigation API must report exactly the assembler's (offset, depth, tag, children flag, attribute count, parent) records, from the root and from every entry offset; header accessors, offset conversions and abbreviation lookup for present/absent codes are compared; duplicate-code tables must be rejected. Both build profiles.",
         "Trusts the assembler and its layout record in harness/src/dieasm.rs. Forests are well formed (sibling pointers target the next sibling or the terminating null).",
         "DESIGN.md §4 C02"),
 'C08': ("proptest random search over generated range/location lists in every encoding, assembled independently; oracle = list-resolution model (running base address, address table, offset tables, documented filters); validity predicates over arbitrary bytes",
         "Exploration. Generated lists over every DW_RLE_*/DW_LLE_* kind, the legacy pair format and the GNU split-DWARF location encoding with boundary addresses, address tables and offset tables behind non-zero bases are checked entry by entry: raw iteration against the encoded entries, cooked iteration against the model, and the per-entry/per-unit helpers (die_ranges, unit_ranges, attr_ranges_offset, attr_locations, ranges_offset_from_raw) through a generated unit. For arbitrary bytes every yielded range must be non-empty and below the tombstones and the iterators must finish within a bound. Both build profiles.",
         "Trusts the list model and encoders in harness/src/c08.rs (DESIGN appendix A.4) and the DIE assembler. gimli's documented tombstone/empty-range filtering is part of the model.",
         "DESIGN.md §4 C08, appendix A.4"),
 'C05': ("exhaustive sweep of all 256 pointer-encoding bytes + proptest random frame sections from an independent CIE/FDE/.eh_frame_hdr assembler; oracle = assembler record + pointer-encoding model; lookup = exhaustive scan differential",
         "Exploration. All 256 DW_EH_PE bytes are decoded under every byte order, address size and base-address subset and compared (value or the specific rejection) with the model; generated sections with every augmentation subset, generated encodings for R/L/P, FDEs before/after/sharing their CIEs, 32/64-bit entries and terminators are iterated and every field compared; address lookups by linear search, by direct unwind-info query and through generated .eh_frame_hdr binary-search tables of every supported entry format must equal an exhaustive scan of the model at and around every FDE boundary. Both build profiles.",
         "Trusts the frame assembler in harness/src/cfimodel.rs and the pointer model in c05.rs (LSB eh_frame spec). The hdr table is built sorted and consistent; cases whose generated FDE ranges overlap are excluded from the table clause.",
         "DESIGN.md §4 C05"),
 'C14': ("proptest random frame tables built through gimli's writing API; round trip write->read with the supplied parameters as oracle and an independent call-frame state machine for the meaning of the supplied instructions",
         "Exploration. Generated frame tables (CIE versions, formats, address sizes, alignment factors incl. 0 and extremes, augmentations, pointer encodings, duplicate and unreferenced CIEs, every CallFrameInstruction variant, code offsets straddling every advance_loc width boundary, on- and off-grid offsets) are written as .debug_frame and .eh_frame and read back: CIE parameters, FDE ranges, personality/LSDA pointers, CIE de-duplication, padding to the address size, and the evaluated unwind rows must equal the state machine run on the supplied instruction list; unencodable requests must be refused. Both build profiles.",
         "Trusts harness/src/cfimodel.rs for the row semantics and gimli's frame reader (itself checked against the same model in C05/C06) for decoding. Representability limits of pointer formats may be refused.",
         "DESIGN.md §4 C14"),
 'C11': ("proptest random unit tables requested through gimli::write; round trip write->read with the request model as oracle, compared by meaning (reference targets by identity marker, strings by content, lists by resolved ranges, expressions by decoded operations)",
         "Exploration. Generated tables of 1-4 units with every AttributeValue variant, boundary payloads around the size-model steps, forward/backward/cross-unit references, reserved-then-added and reserved-never-added entries, base types anywhere among the root's children, sibling flags, shared strings and lists are written and read back; the forest, every attribute's meaning and every reference target must equal the request, and unencodable requests must be refused. The writer's internal offset-prediction assertions count as violations in the dev profile.",
         "Trusts gimli's reader for decoding (checked against independent models in C02/C03/C07/C08) and the request model in harness/src/wmodel.rs. Data4/Data8 are not paired with names that are section offsets in DWARF 2/3.",
         "DESIGN.md §4 C11"),
 'C15': ("proptest random expressions built through every write::Expression builder, placed in DIE attributes, location lists and CFI; oracle = the built operation list (decode round trip, branch landing offsets, reference targets by identity marker) plus a differential evaluation of emitted bytes vs the harness's canonical encoding on an independent stack machine",
         "Exploration. Generated expressions over every op_* builder with boundary operands, nested entry values, forward/backward/to-end branches, in-unit and cross-unit references before/after the referring entry, versions 2-5 x formats x address sizes x byte orders, three placements. Emitted bytes must decode to the built operations, branches must land on the intended operation, references must resolve to the intended entry, the container must parse back intact (length prefix = bytes emitted; the writer's own size assertions are live in the dev profile), evaluation results must agree, and forward ULEB references / references in CFI must be refused.",
         "Trusts gimli's operation decoder (checked against the independent decoder in C07) and harness/src/exprvm.rs for evaluation. Branch displacements beyond 16 bits, typed constants over 255 bytes and pre-v5 location expressions over 65535 bytes may be refused.",
         "DESIGN.md §4 C15"),
 'C16': ("proptest random range/location lists (valid-by-construction and boundary-valued) added to units through gimli::write; round trip write->read against the harness's list-resolution model, an independent representability verdict for refusals, id equality and an independent section walker for de-duplication",
         "Exploration. Generated units (versions 2-5 x formats x address sizes x byte orders x low_pc absent/zero/non-zero) with several lists incl. duplicates and boundary entries are written and read back through attr_ranges/attr_locations: the resolved ranges and per-range expressions must equal the model's resolution of the request; equal lists must share an id and exactly one emitted copy; lists that are not representable unambiguously (empty ranges, offset pairs without / address pairs with a base, default location pre-v5, begin = base-selection marker, begin + length overflow, values wider than the address size) must be refused.",
         "Trusts the resolution model in harness/src/c08.rs (itself compared against gimli's reader on assembler-built lists in C08). An offset pair under a zero low_pc may be refused.",
         "DESIGN.md §4 C16"),
 'C12': ("proptest random assembler-built frame sections and line programs (in a one-entry unit) converted with FrameTable::from / Dwarf::from / the stepwise convert API, written and read back; metamorphic oracle: semantic dump (unwind rows; line rows with resolved files, file table; entry forest with attribute meanings) before = after, or an error; second conversion reproduces the output",
         "Exploration. (a) .debug_frame/.eh_frame with every call-frame instruction, boundary alignment factors/offsets/advances/ranges, pointer encodings; (b) line programs with every opcode incl. mid-sequence set_address, fixed_advance_pc, define_file, min_inst_len/max_ops > 1, tombstones, v2-5 headers with inline and section-string forms. Conversion + write must either return an error or produce DWARF whose dump equals the input's; converting the output again must reproduce it byte for byte. Panics and the writer's debug assertions count as violations (dev profile).",
         "Observer on both sides is gimli's reader (compared against independent models in C02-C08). A line program without rows whose file table nothing refers to counts as absent. Forest conversion with indexed forms is exercised in C19's unfiltered run.",
         "DESIGN.md §4 C12"),
 'C19': ("proptest random assembler-built multi-unit forests with reference graphs, filtered through FilterUnitSection + convert_with_filter for every subset (small forests) or generated subsets of required entries; oracle = an independent reachability closure over the model compared with the identity markers found in the read-back output, plus attribute equality by meaning with the input",
         "Exploration. Forests of 1-3 units with both tag categories, in-unit/cross-unit references in every form, cycles, references from expressions and location lists; for each required set the output must contain exactly the closure (required entries, ancestors, everything retained entries and the always-present unit roots refer to, member-like children of retained non-namespace entries), with original parents and attributes, no dangling reference, and conversion + write must succeed whenever the unfiltered conversion does.",
         "Trusts gimli's reader as observer and the assembler in harness/src/fullasm.rs (its output is cross-checked against the model before use). The member-like tag list is taken from the documented list in FilterUnitEntry::has_die_back_edge. Out-of-bounds references and split-unit filters are not generated.",
         "DESIGN.md §4 C19"),
 'C20': ("proptest random histories over reusable state (stateful testing: generated pools and operation sequences interpreted against fresh state as the reference model)",
         "Exploration. UnwindContext reuse over pools of generated FDEs (incl. failing ones, 0/1/many initial rules, args_size) along all ordered pairs/triples and generated longer histories with partial evaluations, on heap and four fixed storages; one entry buffer across all entries and after failed reads; EntriesTree::root after partial traversals; clones of cursors / line rows / unit-header iterators at every position; Dwarf::unit under every abbreviation cache strategy incl. shared and invalid abbreviation offsets. Every result must equal the result on fresh state.",
         "Fresh state is the oracle (the same gimli code on new objects). List/CFI-entry/operation iterators are not cloned; their re-use is covered by C05/C07/C08 resume tests.",
         "DESIGN.md §4 C20"),
 'C18': ("proptest random unit tables and frame tables written twice (constant addresses through the plain writer; symbol+addend addresses through a relocation-recording RelocateWriter); differential oracles: applied relocations vs direct write (byte equality), and RelocateReader over garbage-filled relocated fields vs plain reader over pre-applied bytes (full dump equality)",
         "Exploration. The C11 unit generator plus generated .debug_frame/.eh_frame tables with absolute, pc-relative and sized pointer encodings. Writing side: recorded relocations applied to the recorded output must reproduce the direct output byte for byte, lie inside their sections and not overlap. Reading side: every recorded field is overwritten with garbage and parsed through RelocateReader with the recorded table; the dump of everything the reader exposes must equal that of the pre-applied bytes, which fails for any address or section offset parsed outside the relocatable primitives.",
         "Sections are placed at address 0 and the relocation table ignores stored bytes (RELA style). Requests refused under only one address representation are skipped. 'Nothing else is relocated' is covered only in the sense that unrecorded offsets are never altered by the table.",
         "DESIGN.md §4 C18"),
 'C01': ("proptest random and structure-aware mutated section sets driven through every reading, lookup, unwinding, evaluation and conversion entry point, with truncation sweeps and a fault-injecting Reader; oracle = robustness invariants (no panic / abort / stack overflow / hang, bounded lazy iterators, documented stop-after-error), observed in-process and through worker exit status and a watchdog",
         "Exploration. Random bytes, well-formed assembler output for every section kind, and mutations of it (overwrites, extreme patterns, truncation, splices, repetition, long runs, swaps), deep nesting (entry_value inside entry_value, chains of only-children, long runs of null tuples) on a 2 MiB stack, generated expression bytecode for address sizes 1/2/4/8; every public read-side entry point incl. .debug_names, package indexes, aranges, pubnames, macros, CFI and .eh_frame_hdr, the evaluator with canned answers, Dwarf::from and FrameTable::from (+ write); truncation at every byte of one section and reader failure at every operation (strided). Both build profiles, so arithmetic overflow and debug assertions count.",
         "Never establishes absence. Memory safety relies on Rust's checks (no sanitizer run in the quick tier). Reader failures are injected only for the Dwarf-level readers, not the frame sections.",
         "DESIGN.md §4 C01"),
 'C17': ("proptest random lookup tables assembled from key->value models by independent encoders; oracle = linear scan of the model for every present key and a set of absent keys; deterministic loader-wiring check with tagged buffers",
         "Exploration. Package indexes v2/v5 (hash placement by the format's rule, every column subset, collisions, load up to full-minus-one) incl. DwarfPackage::find_cu/find_tu/cu_sections/tu_sections contributions; .debug_aranges with padding for every address size and format, interior null tuples; pubnames/pubtypes; .debug_str_offsets/.debug_addr; .debug_names with buckets, collisions, abbreviations, parent chains and type units; Dwarf/DwarfSections/load_sup/DwarfPackageSections loaders with tagged buffers.",
         "The encoders in harness/src/c17.rs are the specification here (DWARF 5 sections 6.1.1.4 and 7.3.5); there is no compiler-produced corpus in the sandbox, so agreement with gcc/clang/dwp output is not checked. Non-ASCII case folding is not compared.",
         "DESIGN.md §4 C17"),
}
NOT_YET = "check not built yet in this session (machinery is being extended property by property; see DESIGN.md §4)"

checks = []
na = []
for p in props:
    pid = p['id']
    if pid in CLAIMED:
        tech, text, note, ref = CLAIMED[pid]
        tech += "; thorough tier adds a coverage-guided libFuzzer campaign whose input is the generator's choice string (all oracles inside the target)"
        if pid in ("C01", "C04", "C12", "C17"):
            tech += " and a differential stage on a gcc/clang-built corpus (" + {"C01": "robustness on real sections and truncations", "C04": "line rows vs llvm-dwarfdump", "C12": "conversion of real units and frame sections preserves the semantic dump", "C17": "aranges vs llvm-dwarfdump, package unit vs standalone .dwo unit"}[pid] + ")"
        if pid == "C01":
            tech += " and a byte-level libFuzzer target over raw section sets"
        checks.append({
            "property_id": pid,
            "quick_cmd": f"./check {pid} quick",
            "thorough_cmd": f"./check {pid} thorough",
            "evidence_file": f"/verif/evidence/{pid}.json",
            "replay_cmd_template": f"./check {pid} --replay {{path}}",
            "engine": "vpcheck",
            "level_claimed": {"category": "exploration", "text": text, "design_ref": ref},
            "level_note": note,
            "technique": tech,
        })
    else:
        na.append({"property_id": pid, "reason": NOT_YET})

manifest = {
    "version": 1,
    "setup_cmd": "./check --build",
    "hooks": {
        "guard": "gimli_verif",
        "enable": "none needed: every observation is made through gimli's public API; the harness builds /repo as a path dependency in a dev (overflow-checked) and a release profile",
        "baseline_off_cmd": "cd /repo && cargo test --workspace --no-fail-fast --offline",
        "source_commits": [],
        "add_only": True,
    },
    "engines": [
        {"name": "vpcheck", "path": "/verif/harness", "serves_properties": [c["property_id"] for c in checks],
         "kind_free_text": "Rust harness: choice-string generators decoded by hand, proptest TestRunner (seeded, shrinking) + exhaustive enumerations + replay tier, one worker process per build profile (dev with overflow checks, release), independent DWARF assembler and reference models as oracles; cargo-fuzz targets in /verif/fuzz reuse the same generators"},
    ],
    "checks": checks,
    "not_applicable": na,
    "notes": "VERIF_SEED seeds every generator; exit 0 = held, 1 = VIOLATION line printed, 2 = inconclusive (build failure, watchdog, resource kill). known_findings.json lists tolerated genuine defects (status known) and repaired ones (status fixed).",
}
json.dump(manifest, open(os.path.join(HERE, 'MANIFEST.json'), 'w'), indent=1)
print("checks:", [c["property_id"] for c in checks], "not_applicable:", len(na))
