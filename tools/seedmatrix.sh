#!/bin/bash
# seedmatrix.sh <repo copy>: every seeded change against every property's quick check, on a scratch copy of gimli
# (never /repo). Prints one line per seed: the checks that catch it. Meant for `vp run --with-repo -- tools/seedmatrix.sh "$VP_RUN_REPO"`.
set -u
HERE="$(cd "$(dirname "$0")/.." && pwd)"
REPO="${1:?path of a scratch copy of the gimli repository}"
[ "$REPO" = "/repo" ] && { echo "refusing to patch /repo"; exit 2; }
cd "$HERE"
export VERIF_REPO="$REPO"
PROPS="C01 C02 C03 C04 C05 C06 C07 C08 C09 C10 C11 C12 C13 C14 C15 C16 C17 C18 C19 C20"
for d in seeded/*/; do
  n=$(basename "$d")
  p="$d/patch.diff"; [ -f "$d/patch.rebased.diff" ] && p="$d/patch.rebased.diff"
  git -C "$REPO" checkout -q -- . 2>/dev/null
  if ! git -C "$REPO" apply "$HERE/$p" 2>/dev/null; then echo "$n: patch does not apply"; continue; fi
  caught=""
  for P in $PROPS; do
    out=$(./check $P quick 2>&1); rc=$?
    if [ $rc -eq 1 ] && echo "$out" | grep -q "^VIOLATION"; then caught="$caught $P"; elif [ $rc -ne 0 ]; then caught="$caught $P(inconclusive)"; fi
  done
  echo "$n: caught by:$caught"
done
git -C "$REPO" checkout -q -- . 2>/dev/null
echo MATRIX-DONE
