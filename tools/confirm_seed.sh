#!/bin/bash
# confirm_seed.sh <ID> <variant>   — independently confirm a sub-agent's seeded defect in its scratch worktree
# (suite passes with the change; demo fails with it; demo passes without), then store it under /verif/seeded/.
set -u
ID="$1"; V="$2"
WT="/tmp/seed/$ID"; OUT="$WT/out/$V"
DEST="/verif/seeded/$ID-$V"
cd "$WT" || exit 2
git checkout -q -- src; rm -f tests/seed_demo.rs
git apply --check "$OUT/patch.diff" || { echo "patch does not apply"; exit 1; }
git apply "$OUT/patch.diff"
suite=$(cargo test --workspace --no-fail-fast --offline 2>&1 | grep -E "^test result" )
fails=$(echo "$suite" | grep -c FAILED)
npass=$(echo "$suite" | sed -E 's/.* ([0-9]+) passed.*/\1/' | paste -sd+ | bc)
cp "$OUT/demo.rs" tests/seed_demo.rs
demo_out=$(cargo test --offline --test seed_demo 2>&1)
demo_with=$(echo "$demo_out" | grep -E "^test result" | head -1)
# a demonstration that kills the test process (stack overflow, abort) prints no result line
if [ -z "$demo_with" ] && echo "$demo_out" | grep -qE "SIGABRT|SIGSEGV|has overflowed its stack|process abort"; then
  demo_with="FAILED (test process died: $(echo "$demo_out" | grep -E "SIGABRT|SIGSEGV|has overflowed its stack" | head -1 | cut -c1-120))"
fi
git checkout -q -- src
demo_without=$(cargo test --offline --test seed_demo 2>&1 | grep -E "^test result" | head -1)
rm -f tests/seed_demo.rs
echo "$ID-$V suite_failed_binaries=$fails passed=$npass | with: $demo_with | without: $demo_without"
ok=1
[ "$fails" = "0" ] || ok=0
echo "$demo_with" | grep -q FAILED || ok=0
echo "$demo_without" | grep -q "ok\." || ok=0
if [ $ok = 1 ]; then
  mkdir -p "$DEST"
  cp "$OUT/patch.diff" "$DEST/patch.diff"; cp "$OUT/demo.rs" "$DEST/demo.rs"
  python3 - "$OUT/meta.json" "$DEST/meta.json" "$npass" "$demo_with" "$demo_without" <<'PY'
import json,sys
m=json.load(open(sys.argv[1]))
m['confirmed_by_main_session']={'suite_with_change':f'cargo test --workspace --no-fail-fast --offline: {sys.argv[3]} passed, 0 failed','demo_with_change':sys.argv[4],'demo_without_change':sys.argv[5]}
json.dump(m,open(sys.argv[2],'w'),indent=1)
PY
  echo "CONFIRMED -> $DEST"
else
  echo "NOT CONFIRMED $ID-$V"
fi
