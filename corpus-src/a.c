#include <stddef.h>
struct point { int x, y; };
union u { long l; double d; char c[8]; };
enum color { RED, GREEN = 5, BLUE };
typedef int (*callback)(struct point *, void *);
static volatile int sink;
static inline int sq(int v) { return v * v; }
__attribute__((noinline)) int dist2(const struct point *a, const struct point *b) {
    int dx = a->x - b->x, dy = a->y - b->y;
    return sq(dx) + sq(dy);
}
int walk(struct point *pts, size_t n, callback cb, void *arg) {
    int total = 0;
    for (size_t i = 0; i + 1 < n; i++) {
        total += dist2(&pts[i], &pts[i + 1]);
        if (cb && cb(&pts[i], arg)) break;
        { int shadow = total * 2; sink = shadow; }
    }
    return total;
}
static int count(struct point *p, void *arg) { (void)p; return ++*(int *)arg > 3; }
int bits(union u v, enum color c) {
    switch (c) { case RED: return v.c[0]; case GREEN: return (int)v.l; default: return (int)v.d; }
}
int main(int argc, char **argv) {
    struct point pts[5] = {{0,0},{1,2},{3,4},{5,6},{7,8}};
    int n = 0; (void)argv;
    union u v; v.l = argc;
    return walk(pts, 5, count, &n) + bits(v, (enum color)(argc % 3)) + sink;
}
