#include <cstddef>
namespace geo {
template <typename T> struct Vec { T x, y; T dot(const Vec &o) const { return x * o.x + y * o.y; } };
namespace detail { static int hidden(int v) { return v * 3; } }
class Shape { public: virtual ~Shape() {} virtual double area() const = 0; int id = 0; };
class Rect : public Shape { public: Rect(double w, double h) : w_(w), h_(h) {} double area() const override { return w_ * h_; } private: double w_, h_; };
inline int twice(int v) { return detail::hidden(v) - v; }
}
struct Node { Node *next; int val; static int live; };
int Node::live = 0;
template <typename F> int apply(F f, int n) { int s = 0; for (int i = 0; i < n; i++) s += f(i); return s; }
volatile int out;
int run(int n) {
    geo::Vec<int> a{1, 2}, b{3, n};
    geo::Vec<double> c{1.5, 2.5};
    geo::Rect r(2, n);
    Node n2{nullptr, n}, n1{&n2, 1};
    int acc = 0;
    for (Node *p = &n1; p; p = p->next) acc += p->val;
    auto lam = [&](int i) { return i * a.dot(b) + (int)c.dot(c); };
    return apply(lam, n) + geo::twice(acc) + (int)r.area();
}
int main(int argc, char **) { out = run(argc + 3); return out & 1; }
